#!/usr/bin/env python3
"""Regenerates appendix K of DESIGN.md (the table of seeded changes) from seeded/*/meta.json."""
import glob, json, os, re
V = os.path.dirname(os.path.dirname(os.path.abspath(__file__)))
rows, missed = [], []
for d in sorted(glob.glob(os.path.join(V, "seeded", "C*-*"))):
    key = os.path.basename(d)
    m = json.load(open(os.path.join(d, "meta.json")))
    det = m.get("detected_by", "")
    runs = m.get("runs", {})
    ok = any(r.get("exit") == 1 for r in runs.values())
    short = re.sub(r"bin/check (C\d\d) --tier quick \((.*)\)", r"\1 (\2)", det) if ok else "NOT DETECTED"
    if not ok:
        missed.append(key)
    esc = lambda t: t.replace("|", "\\|")
    rows.append("| %s | %s | %s | %s |" % (key, esc(m["change"]), esc(m.get("needs_to_manifest", "")), esc(short)))
n = len(rows)
head = ("## K. Seeded changes (generated from `seeded/*/meta.json`)\n\n"
        "%d changes (three rounds of two per property, a fourth round for six properties, a fifth of one change for four properties), every one confirmed in a scratch worktree%s.\n\n"
        "| Seed | Change | Needs | Detected by (quick tier) |\n|---|---|---|---|\n"
        % (n, " and every one detected by the quick tier of the property it attacks" if not missed else "; not detected: " + ", ".join(missed)))
p = os.path.join(V, "DESIGN.md")
s = open(p).read()
i = s.index("## K. Seeded changes")
s = s[:i] + head + "\n".join(rows) + "\n"
open(p, "w").write(s)
print(n, "rows;", "missed:", missed)
