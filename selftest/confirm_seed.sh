#!/bin/bash
# confirm_seed.sh <worktree> <name A|B> : confirm a sub-agent's seeded change in its scratch worktree.
#  clean tree: demo exits 0; with the patch: builds, the existing suite passes, demo exits non-zero.
wt=$1; n=$2
cd "$wt" || exit 2
git checkout -q -- ccl
INC="-I ccl/cclCommons/include -I ccl/cclGraph/include -I ccl/cclLang/include -I ccl/rslang/include -I ccl/core/include"
bld() { cmake --build _build --target cclCommons_Tests cclGraph_Tests cclLang_Tests ConceptCoreLibrary >/dev/null 2>&1; }
[ -f _build/build.ninja ] || cmake -G Ninja -S ccl -B _build -DCMAKE_BUILD_TYPE=RelWithDebInfo -DCMAKE_CXX_FLAGS="-Wno-error=free-nonheap-object" >/dev/null
bld || { echo "clean build failed"; exit 2; }
g++ -std=c++20 -w $INC deliver/demo$n.cpp _build/libConceptCoreLibrary.a -o /tmp/demo-$$ || { echo "demo compile failed"; exit 2; }
timeout 120 /tmp/demo-$$ >/dev/null 2>&1; clean_rc=$?
git apply deliver/$n.diff || { echo "patch does not apply"; exit 2; }
if bld; then built=1; else built=0; fi
tests=$(ctest --test-dir _build -E NOT_BUILT -j8 2>&1 | grep -E "tests passed|tests failed" | head -1)
g++ -std=c++20 -w $INC deliver/demo$n.cpp _build/libConceptCoreLibrary.a -o /tmp/demo-$$
timeout 120 /tmp/demo-$$ >/dev/null 2>&1; mut_rc=$?
git checkout -q -- ccl
rm -f /tmp/demo-$$
echo "seed $wt $n: clean_demo_rc=$clean_rc built=$built tests='$tests' mutant_demo_rc=$mut_rc"
[ $clean_rc -eq 0 ] && [ $built -eq 1 ] && [ $mut_rc -ne 0 ] && echo "$tests" | grep -q "100% tests passed" && echo CONFIRMED
