#!/usr/bin/env python3
"""run_seed.py <seed-key> [quick|thorough] : apply seeded/<key>/patch.diff to a scratch worktree of /repo, run the
property's check against it (VERIF_REPO), remove the worktree and its build, and record in meta.json whether
(and by which comparison) the change was detected.  Evidence of these runs goes to a scratch directory."""
import hashlib, json, os, re, shutil, subprocess, sys, time
V = os.path.dirname(os.path.dirname(os.path.abspath(__file__)))
key = sys.argv[1]; tier = sys.argv[2] if len(sys.argv) > 2 else "quick"
d = os.path.join(V, "seeded", key)
meta = json.load(open(os.path.join(d, "meta.json")))
pids = [meta["property"]] + meta.get("also_check", [])
wt = "/tmp/seedrun-" + key
subprocess.run(["git", "-C", "/repo", "worktree", "remove", "--force", wt], stderr=subprocess.DEVNULL)
subprocess.run(["git", "-C", "/repo", "worktree", "add", "-q", "--detach", wt, "HEAD"], check=True)
env = dict(os.environ, VERIF_REPO=wt, VERIF_EVIDENCE_DIR="/tmp/seedrun-ev-" + key)
try:
    subprocess.run(["git", "-C", wt, "apply", os.path.join(d, "patch.diff")], check=True)
    for pid in pids:
        t = time.time()
        r = subprocess.run([os.path.join(V, "bin/check"), pid, "--tier", tier], stdout=subprocess.PIPE, stderr=subprocess.PIPE, text=True, cwd=V, env=env)
        viol = [l for l in r.stdout.splitlines() if l.startswith("VIOLATION")]
        whats = sorted(set(re.findall(r"what=(\S+)", "\n".join(viol))))
        res = {"check": pid, "tier": tier, "exit": r.returncode, "violations": len(viol), "what": whats, "wall_s": round(time.time() - t, 1)}
        meta.setdefault("runs", {})[pid + ":" + tier] = res
        if r.returncode == 1:
            meta["detected_by"] = "bin/check %s --tier %s (%s)" % (pid, tier, ", ".join(whats))
        print(key, res, flush=True)
        if r.returncode == 2:
            print(r.stderr[-2000:])
finally:
    subprocess.run(["git", "-C", "/repo", "worktree", "remove", "--force", wt])
    h = hashlib.sha1(wt.encode()).hexdigest()[:8]
    for n in ("rel-" + h, "asan-" + h):
        shutil.rmtree(os.path.join(V, "build", n), ignore_errors=True)
    shutil.rmtree("/tmp/seedrun-ev-" + key, ignore_errors=True)
json.dump(meta, open(os.path.join(d, "meta.json"), "w"), indent=1)
