CONSTANTS MaxLen = 4
MaxPict = 4
Preset = "chain"
SPECIFICATION Spec
INVARIANT StructureInv
INVARIANT FreshInv
CONSTRAINT Emit
