CONSTANTS ConstIds = {"C1", "C2", "C3"}
SPECIFICATION TSpec
INVARIANT PropModel
POSTCONDITION TraceAccepted
CHECK_DEADLOCK FALSE
