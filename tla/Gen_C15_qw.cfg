CONSTANTS NVals = 3
MaxHist = 3
IdOf <- WideId
SPECIFICATION Spec
INVARIANT OrderTheorem
CONSTRAINT Emit
