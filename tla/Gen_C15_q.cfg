CONSTANTS NVals = 3
MaxHist = 3
SPECIFICATION Spec
INVARIANT OrderTheorem
CONSTRAINT Emit
