------------------------------ MODULE Trace_C14 -----------------------------
(* Code -> spec: a trace recorded from the real ccl::graph::UpdatableGraph  *)
(* (one event per public mutator call, with the answers the implementation  *)
(* gave to a set of queries right after the call) must be a behaviour of    *)
(* CGraph, and the logged answers must satisfy the property at every step.  *)
EXTENDS CGraph, TLC, Json, IOUtils

VARIABLES l,        \* next event to consume
          seen      \* observation logged with the event just consumed

TraceLog == ndJsonDeserialize(IOEnv.TRACE)

tvars == <<nodes, edges, invalid, l, seen>>
NoObs == [none |-> TRUE]
Set(q) == ToSet(q)

TInit == GInit /\ l = 1 /\ seen = NoObs

Ev == TraceLog[l]
Consume == l' = l + 1 /\ seen' = (IF "obs" \in DOMAIN Ev THEN Ev.obs ELSE NoObs)

TNext ==
  /\ l <= Len(TraceLog)
  /\ Consume
  /\ CASE Ev.e = "Reset"         -> nodes' = {} /\ edges' = {} /\ invalid' = FALSE
       [] Ev.e = "AddItem"       -> AddItem(Ev.a)
       [] Ev.e = "EraseItem"     -> EraseItem(Ev.a)
       [] Ev.e = "AddConnection" -> AddConnection(Ev.a, Ev.b)
       [] Ev.e = "SetItemInputs" -> SetItemInputs(Ev.a, Set(Ev.s))
       [] Ev.e = "Clear"         -> Clear
       [] Ev.e = "Invalidate"    -> Invalidate
       [] Ev.e = "SetValid"      -> SetValid
       [] Ev.e = "UpdateFor"     -> UpdateFor(Ev.a, Set(Ev.s))
       [] Ev.e = "Fault"         -> FALSE        \* the recorded execution crashed / threw / hung: not a behaviour

TSpec == TInit /\ [][TNext]_tvars

\* The property, evaluated on the logged observation against the specification state
PairSet(q) == {<<p[1], p[2]>> : p \in Set(q)}
PropC14 ==
  seen # NoObs =>
    /\ Set(seen.nodes) = nodes
    /\ seen.nItems = Cardinality(nodes)
    /\ PairSet(seen.edges) = edges
    /\ seen.nEdges = Cardinality(edges)
    /\ seen.invalid = invalid
    /\ seen.hasLoop = HasLoop(nodes, edges)
    /\ {Set(g) : g \in Set(seen.loops)} = LoopGroups(nodes, edges)
    /\ Len(seen.loops) = Cardinality(LoopGroups(nodes, edges))
    /\ TopoOK(nodes, edges, seen.topo)
    /\ Set(seen.qout) = ExpandOutputs(nodes, edges, Set(seen.qx))
    /\ Set(seen.qinn) = ExpandInputs(nodes, edges, Set(seen.qx))
    /\ IsSubSeqOf(seen.qsort, seen.topo, Set(seen.qx) \cap nodes)
    /\ Set(seen.qin) = InputsFor(nodes, edges, seen.qa)
    /\ (seen.qa # seen.qb => seen.qreach = (seen.qa \in nodes /\ seen.qb \in nodes /\ PathPlus(edges, seen.qa, seen.qb)))
    /\ (seen.qa = seen.qb /\ <<seen.qa, seen.qa>> \in edges => seen.qreach)

TraceAccepted == TLCGet("stats").diameter - 1 = Len(TraceLog)
=============================================================================
