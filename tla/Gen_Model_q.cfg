CONSTANTS ConstIds = {"C1", "C2", "C3"}
MaxLen = 3
MaxCst = 5
Preset = "terms"
SPECIFICATION Spec
CONSTRAINT Emit
