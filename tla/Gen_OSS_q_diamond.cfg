CONSTANTS MaxLen = 3
MaxPict = 4
Preset = "diamond"
SPECIFICATION Spec
INVARIANT StructureInv
INVARIANT FreshInv
CONSTRAINT Emit
