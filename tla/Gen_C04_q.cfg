CONSTANTS ConstIds = {"C1"}
MaxSeq = 2
SeqAlphabet = "full"
EditTrees = "ctor"
SPECIFICATION Spec4
CONSTRAINT Emit4
