SPECIFICATION TSpec
INVARIANT PropC04
POSTCONDITION TraceAccepted
CHECK_DEADLOCK FALSE
