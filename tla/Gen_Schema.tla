------------------------------- MODULE Gen_Schema ---------------------------
(***************************************************************************)
(* Spec -> code generator for the schema properties (C07 C08 C09 C10):     *)
(* every history of at most MaxLen public mutator calls (arguments from    *)
(* the pools below: colliding / ill-formed aliases and identifiers,        *)
(* definitions that create, break and cycle dependencies, texts with       *)
(* references) with the predicted content and from-scratch analysis after  *)
(* the last call.  SchemaInv (C09) is checked as an invariant on the way.  *)
(***************************************************************************)
EXTENDS Schema, Json
CONSTANTS MaxLen, MaxCst,
          Preset          \* which operations / argument pools are enabled (see below)

VARIABLE hist
vars == <<order, cst, trk, hist>>

\* ---- presets: the bounded universe of each configuration
\* "ids"   : identity and ordering (C09): every operation, colliding / ill-formed aliases and identifiers, trivial definitions
\* "deps"  : incremental analysis (C07): definitions that create, break and cycle dependencies between X1, D1, D2
\* "kinds" : incremental analysis over every constituent kind (functions, calls, axioms, structures, ill-typed, unparsable, dangling)
\* "texts" : resolved terms and definition texts (C07, last clause): X1, D1, D2 are created by script, then chains of references
\*           between terms and texts are built, re-pointed, renamed and broken
\* "proj"  : definitions that differ only in the index of a projection (X1, D1 := X1 x B(X1), D2 := Pr1(D1) by script)
\* "names" : renaming (C08): aliases that are prefixes of each other, chains and mentions in definitions, conventions, references
OpSet == CASE Preset = "ids" -> {"Emplace", "InsertCopy", "InsertBulk", "Erase", "SetAlias", "MoveBefore", "ResetAliases", "Track", "StopTracking", "SetExpression", "SaveLoad"}
           [] Preset = "dups" -> {"Emplace", "Track", "DeleteDuplicates", "Erase", "SetAlias", "SetConvention"}
           [] Preset = "deps" -> {"Emplace", "SetExpression", "Erase", "InsertBulk"}
           [] Preset = "kinds" -> {"Emplace", "SetExpression", "Erase", "SetAlias"}
           [] Preset = "names" -> {"Emplace", "SetAlias", "ResetAliases", "SetConvention", "SetTerm", "SetText", "InsertCopy", "InsertBulk", "Erase"}
           [] Preset = "ops" -> {"Emplace", "Erase"}
           [] Preset = "texts" -> {"Emplace", "SetTerm", "SetText", "SetAlias", "Erase", "SetTermForm"}
           [] Preset = "proj" -> {"Emplace", "SetExpression", "Erase"}
UidPool == 1..(MaxCst + 1)
EmplaceKinds == CASE Preset = "ids" -> {"base", "constant", "structured", "term", "axiom"}
                  [] Preset = "deps" -> {"base", "term"}
                  [] Preset = "dups" -> {"base", "term"}
                  [] Preset = "kinds" -> {"base", "structured", "term", "function", "axiom"}
                  [] Preset = "names" -> {"base", "term"}
                  [] Preset = "ops" -> {"base", "term", "axiom"}
                  [] Preset = "texts" -> {"base", "term"}
                  [] Preset = "proj" -> {"base", "term"}
\* definitions offered when a constituent of kind k is created
KindDefs(k) == CASE Preset = "ids" -> {1, 2}
                 [] Preset = "dups" -> IF k = "base" THEN {1} ELSE {2, 5}
                 [] Preset = "deps" -> IF k = "base" THEN {1} ELSE {2, 5, 6, 7, 8, 17}
                 [] Preset = "kinds" -> (CASE k = "base" -> {1} [] k = "structured" -> {4, 18} [] k = "term" -> {2, 5, 9, 10, 11, 13, 16, 22, 23, 24}
                                          [] k = "function" -> {12} [] k = "axiom" -> {14, 15})
                 [] Preset = "names" -> IF k = "base" THEN {1} ELSE {5, 16, 19}
                 [] Preset = "texts" -> IF k = "base" THEN {1} ELSE {2}
                 [] Preset = "proj" -> IF k = "base" THEN {1} ELSE IF Len(hist) = 1 THEN {25} ELSE {26}
                 [] Preset = "ops" -> (CASE k = "base" -> {1} [] k = "term" -> {2, 5, 6, 10, 20, 21} [] k = "axiom" -> {15})
\* definitions offered to SetExpression
EditDefs == CASE Preset = "ids" -> {1, 2} [] Preset = "dups" -> {} [] Preset = "deps" -> {2, 5, 6, 7, 8, 17} [] Preset = "kinds" -> {1, 2, 5, 10, 12, 13, 14, 16, 22} [] Preset = "names" -> {} [] Preset = "ops" -> {} [] Preset = "texts" -> {} [] Preset = "proj" -> {25, 26, 27, 28}
AliasPool == CASE Preset = "ids" -> {"X1", "X2", "D1", "Q7"} [] Preset = "dups" -> {"D3"} [] Preset = "kinds" -> {"D1", "D2", "X2"} [] Preset = "names" -> {"X1", "X11", "X2", "D1", "D11", "D2"} [] Preset = "texts" -> {"X2", "D3"} [] OTHER -> {}
RecUids == {1, 2}
RecAliases == IF Preset = "names" THEN {"X1", "D1", "X11"} ELSE {"X1", "D1", "Q7"}
RecDefs == {1, 8}

G1(n) == Glob(n)
La == Loc("a")
DefPool == <<
  NoDef,                                                                  \*  1 empty definition
  G1("X1"),                                                               \*  2
  Node("DECART", <<G1("X1"), G1("X1")>>),                                 \*  3
  Node("BOOLEAN", <<Node("DECART", <<G1("X1"), G1("X1")>>)>>),            \*  4 structure domain
  Node("UNION", <<G1("D1"), G1("X1")>>),                                  \*  5 depends on D1
  Node("SET_MINUS", <<G1("D2"), G1("X1")>>),                              \*  6 depends on D2
  G1("D1"),                                                               \*  7 alias only
  Node("SET_MINUS", <<G1("D1"), G1("X1")>>),                              \*  8 self reference when given to D1
  Node("UNION", <<G1("X9"), G1("X1")>>),                                  \*  9 never-existing name
  Node("UNION", <<G1("X1"), Node("DECART", <<G1("X1"), G1("X1")>>)>>),    \* 10 ill-typed
  Node("BAD", <<G1("X1")>>),                                              \* 11 does not parse
  Node("FUNCDEF", <<Node("ARGS", <<Node("ARG", <<La, Node("BOOLEAN", <<G1("X1")>>)>>)>>), Node("UNION", <<La, G1("X1")>>)>>),   \* 12 [a in B(X1)] a \union X1
  Call("F1", <<G1("X1")>>),                                               \* 13 call
  Node("EQUAL", <<G1("X1"), G1("X1")>>),                                  \* 14 logical
  Node("EQUAL", <<G1("D1"), G1("X1")>>),                                  \* 15 logical, depends on D1
  Node("UNION", <<G1("D1"), G1("D2")>>),                                  \* 16
  Node("UNION", <<G1("D2"), G1("X1")>>),                                  \* 17 depends on D2 (cycle with 5/8 on D2)
  Node("BOOLEAN", <<G1("X2")>>),                                          \* 18 depends on X2
  Node("UNION", <<Node("UNION", <<G1("X1"), G1("X11")>>), Node("DECLARATIVE", <<Loc("x1"), G1("D1"), Node("IN", <<Loc("x1"), G1("D11")>>)>>)>>),  \* 19 X1, X11, D1, D11 and a local x1
  Node("UNION", <<G1("X2"), G1("X1")>>),                                  \* 20 two base sets
  Node("UNION", <<G1("D3"), G1("D2")>>),                                  \* 21 depends on later terms
  Node("BOOLEAN", <<G1("X1")>>),                                          \* 22 a property (power set), not a value
  Node("CARD", <<G1("D1")>>),                                             \* 23 needs a value: improper when D1 is a property
  Call("F1", <<G1("D1")>>),                                               \* 24 call whose argument may be a property
  Node("DECART", <<G1("X1"), Node("BOOLEAN", <<G1("X1")>>)>>),            \* 25 X1 x B(X1)
  Idx("BIGPR", <<1>>, <<G1("D1")>>),                                      \* 26 Pr1(D1)
  Idx("BIGPR", <<2>>, <<G1("D1")>>),                                      \* 27 Pr2(D1): differs from 26 only in the index, another typification
  Idx("BIGPR", <<2, 1>>, <<G1("D1")>>)                                    \* 28 Pr2,1(D1)
>>
Words == <<"note", "X1", "D1">>                       \* conventions: plain word, and words that are aliases
\* a plain "word" may itself be reference syntax the model does not interpret: a collaboration reference stays as it is
AtomsPool == {<<>>, <<[r |-> TRUE, s |-> "X1"], [r |-> FALSE, s |-> "X1"], [r |-> TRUE, s |-> "X11"], [r |-> TRUE, s |-> "D1"]>>,
              <<[r |-> TRUE, s |-> "D2"]>>, <<[r |-> TRUE, s |-> "X1"], [r |-> FALSE, s |-> "@{-1|lonely}"], [r |-> TRUE, s |-> "D1"]>>}
\* atoms of the "texts" preset also carry the word form asked for (f) and whether they are glued to the previous atom (g)
WordT(w) == [r |-> FALSE, s |-> w, f |-> "", g |-> FALSE]
RefT(a, form, glued) == [r |-> TRUE, s |-> a, f |-> form, g |-> glued]
TermPoolT == {<<WordT("word")>>, <<RefT("X1", "sing,nomn", FALSE)>>, <<RefT("D1", "plur,gent", FALSE), WordT("of")>>}
TextPoolT == {<<RefT("D1", "sing,nomn", FALSE)>>, <<WordT("see"), RefT("D2", "plur,datv", FALSE), RefT("X1", "sing,nomn", TRUE)>>}
\* the scripted prefix of "texts": base set, term, term (then no further Emplace)
Scripted(k) == Preset \notin {"texts", "proj"} \/ (Len(hist) < 3 /\ k = (IF Len(hist) = 0 THEN "base" ELSE "term"))
Free == Preset \notin {"texts", "proj"} \/ Len(hist) >= 3
ConvPool == {<<>>, <<"X1", "note", "D1", "X11", "x1">>}
RecPool == {[uid |-> u, alias |-> a, kind |-> k, def |-> DefPool[d], conv |-> <<"X1">>, term |-> <<[r |-> TRUE, s |-> a]>>, text |-> <<>>] :
               u \in RecUids, a \in RecAliases, k \in {"base", "term"}, d \in RecDefs}

\* pairs inserted in one call: a base set with a term over it, terms that mention each other (forward and backward in the list),
\* every alias apt to collide with what the schema already holds
BRec(u, a, k, d) == [uid |-> u, alias |-> a, kind |-> k, def |-> DefPool[d], conv |-> <<a>>, term |-> <<>>, text |-> <<[r |-> TRUE, s |-> a]>>]
BulkPool == {<<BRec(1, "X1", "base", 1), BRec(2, "D1", "term", 5)>>,
             <<BRec(1, "D1", "term", 16), BRec(2, "D2", "term", 5)>>,
             <<BRec(2, "D2", "term", 8), BRec(1, "D1", "term", 2)>>,
             <<BRec(2, "D1", "term", 6), BRec(3, "D2", "term", 2), BRec(1, "X1", "base", 1)>>}
Op(o) == [op |-> o, u |-> 0, a |-> "", k |-> "", p |-> 0, b |-> FALSE, fresh |-> 0, d |-> <<>>, hasdef |-> FALSE, w |-> <<>>, q |-> <<>>,
          rec |-> <<>>]
Toks(d) == IF d = NoDef THEN <<>> ELSE Render(d, 0).t
Fresh == CHOOSE u \in UidPool : u \notin Ids /\ \A v \in UidPool : v \notin Ids => u <= v     \* smallest free identifier of the pool
Fresh2(avoid) == CHOOSE u \in UidPool : u \notin Ids /\ u # avoid /\ \A v \in UidPool : (v \notin Ids /\ v # avoid) => u <= v
CanGrow == Cardinality(Ids) < MaxCst /\ (UidPool \ Ids) # {}

Step(A, rec) == A /\ hist' = Append(hist, rec)
Next ==
  /\ Len(hist) < MaxLen
  /\ \/ /\ "Emplace" \in OpSet /\ CanGrow
        /\ \E k \in {x \in EmplaceKinds : Scripted(x)} : \E i \in KindDefs(k) :
              Step(Emplace(k, DefPool[i], Fresh), [Op("Emplace") EXCEPT !.k = k, !.d = Toks(DefPool[i]), !.hasdef = (DefPool[i] # NoDef), !.fresh = Fresh])
     \/ /\ "InsertCopy" \in OpSet /\ CanGrow
        /\ \E r \in RecPool : \E f \in {Fresh2(r.uid)} :
              Step(InsertCopy(r, f), [Op("InsertCopy") EXCEPT !.fresh = f,
                     !.rec = <<[uid |-> r.uid, alias |-> r.alias, kind |-> r.kind, d |-> Toks(r.def), conv |-> r.conv, term |-> r.term, text |-> r.text]>>])
     \/ /\ "InsertBulk" \in OpSet /\ Cardinality(Ids) + 3 <= MaxCst + 2 /\ ((Len(hist) = 0 /\ (Preset # "names" \/ MaxLen <= 3)) \/ (Preset # "deps" /\ MaxLen <= 3 /\ Len(hist) < 2))
        /\ \E rs \in BulkPool : LET fr == SelectSeq(<<91, 92, 93, 94, 95, 96>>, LAMBDA x : x \notin Ids) IN     \* the generator's next free identifiers
              Step(InsertBulk(rs, fr), [Op("InsertBulk") EXCEPT !.w = <<>>, !.q = <<>>,
                     !.rec = [i \in DOMAIN rs |-> [uid |-> rs[i].uid, alias |-> rs[i].alias, kind |-> rs[i].kind, d |-> Toks(rs[i].def), conv |-> rs[i].conv, term |-> rs[i].term, text |-> rs[i].text]]])
     \/ /\ "Erase" \in OpSet /\ Free /\ \E u \in (IF Preset = "ops" THEN Ids ELSE UidPool) : Step(Erase(u), [Op("Erase") EXCEPT !.u = u])
     \/ /\ "SetAlias" \in OpSet /\ Free /\ \E u \in Ids, a \in AliasPool, b \in (IF Preset = "texts" THEN {TRUE} ELSE BOOLEAN) : Step(SetAlias(u, a, b), [Op("SetAlias") EXCEPT !.u = u, !.a = a, !.b = b])
     \/ /\ "SetExpression" \in OpSet /\ Free /\ \E u \in Ids, i \in EditDefs :
              Step(SetExpression(u, DefPool[i]), [Op("SetExpression") EXCEPT !.u = u, !.d = Toks(DefPool[i]), !.hasdef = (DefPool[i] # NoDef)])
     \/ /\ "SetConvention" \in OpSet /\ \E u \in Ids, q \in ConvPool : Step(SetConvention(u, q), [Op("SetConvention") EXCEPT !.u = u, !.w = q])
     \/ /\ "SetTerm" \in OpSet /\ Free /\ \E u \in Ids, q \in (IF Preset = "texts" THEN TermPoolT ELSE AtomsPool) : Step(SetTerm(u, q), [Op("SetTerm") EXCEPT !.u = u, !.q = q])
     \/ /\ "SetTermForm" \in OpSet /\ Free /\ \E u \in Ids, f \in {"plur,gent", "sing,datv"} :
              Step(SetTermForm(u, f, "manual"), [Op("SetTermForm") EXCEPT !.u = u, !.a = f, !.w = <<"manual">>])
     \/ /\ "SetText" \in OpSet /\ Free /\ \E u \in Ids, q \in (IF Preset = "texts" THEN TextPoolT ELSE AtomsPool) : Step(SetText(u, q), [Op("SetText") EXCEPT !.u = u, !.q = q])
     \/ /\ "MoveBefore" \in OpSet /\ \E u \in Ids, p \in 1..(Len(order) + 1) : Step(MoveBefore(u, p), [Op("MoveBefore") EXCEPT !.u = u, !.p = p])
     \/ /\ "ResetAliases" \in OpSet /\ Ids # {} /\ Step(ResetAliases, Op("ResetAliases"))
     \/ /\ "Track" \in OpSet /\ \E u \in Ids, b \in BOOLEAN : Step(Track(u, b), [Op("Track") EXCEPT !.u = u, !.b = b])
     \/ /\ "StopTracking" \in OpSet /\ \E u \in DOMAIN trk : Step(StopTracking(u), [Op("StopTracking") EXCEPT !.u = u])
     \/ /\ "DeleteDuplicates" \in OpSet /\ Ids # {} /\ Step(DeleteDuplicates, Op("DeleteDuplicates"))
     \/ /\ "SaveLoad" \in OpSet /\ Ids # {} /\ Step(SaveLoad, Op("SaveLoad"))

Init == SInit /\ hist = <<>>
Spec == Init /\ [][Next]_vars

Obs ==
  LET an == Analysis(cst) IN
  [order |-> order,
   items |-> [i \in DOMAIN order |->
      LET u == order[i]  c == cst[u]  r == an[c.alias] IN
      [uid |-> u, alias |-> c.alias, kind |-> c.kind, d |-> Toks(c.def), conv |-> c.conv, term |-> c.term, text |-> c.text,
       tracked |-> u \in DOMAIN trk, allow |-> IF u \in DOMAIN trk THEN trk[u].allowEdit ELSE FALSE,
       ok |-> r.ok, type |-> IF r.ok THEN TypeStr(r.type) ELSE "", vc |-> r.vc,
       args |-> IF r.ok THEN [k \in DOMAIN r.args |-> [name |-> r.args[k].name, type |-> TypeStr(r.args[k].type)]] ELSE <<>>,
       deps |-> SetToSeq(Deps(cst, u)),
       forms |-> LET fm == FormsOf(c)  ks == SetToSeq(DOMAIN fm) IN [k \in DOMAIN ks |-> <<ks[k], fm[ks[k]]>>]]]]
Emit == PrintT(<<"CASE", ToJson([hist |-> hist, obs |-> Obs])>>)
=============================================================================
