------------------------------ MODULE Trace_C16 -----------------------------
(* Code -> spec for C16: calls of SDCompact::FromSData / Unpack recorded on random     *)
(* typifications (depth <= 4), values and damaged tables.                               *)
(*   Pack   event: the value that came back equals the value packed (round trip);      *)
(*                 the specification's own Pack/Unpack round-trips the same value.      *)
(*   Unpack event: the result is nothing or a value with the structure of the type.    *)
EXTENDS SDCompact, TLC, Json, IOUtils
VARIABLES l, seen
TraceLog == ndJsonDeserialize(IOEnv.TRACE)
NoObs == [e |-> "none"]
TInit == l = 1 /\ seen = NoObs
TNext == l <= Len(TraceLog) /\ l' = l + 1 /\ seen' = TraceLog[l]
TSpec == TInit /\ [][TNext]_<<l, seen>>

PackOK(ev) ==
  /\ WellShaped(ev.value, ev.type)
  /\ Len(ev.back) = 1 /\ WellShaped(ev.back[1], ev.type)
  /\ Dec(ev.back[1], ev.type) = Dec(ev.value, ev.type)
  /\ RoundTrips(Dec(ev.value, ev.type), ev.type)          \* the model agrees that this value round-trips
UnpackOK(ev) ==
  ev.ok => /\ ev.compat /\ Len(ev.v) = 1 /\ WellShaped(ev.v[1], ev.type)
PropC16 == CASE seen.e = "Pack" -> PackOK(seen) [] seen.e = "Unpack" -> UnpackOK(seen) [] seen.e = "Fault" -> FALSE   \* the recorded execution crashed / threw / hung
             [] OTHER -> TRUE
TraceAccepted == TLCGet("stats").diameter - 1 = Len(TraceLog)
=============================================================================
