CONSTANTS Ids = {1, 2, 3}
SPECIFICATION GSpec
INVARIANTS TypeOK ClosureLaws LoopLaws TopoExists
PROPERTIES InputsReplaced EraseUnlinks
