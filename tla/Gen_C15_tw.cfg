CONSTANTS NVals = 4
MaxHist = 4
IdOf <- WideId
SPECIFICATION Spec
INVARIANT OrderTheorem
CONSTRAINT Emit
