CONSTANTS Ids = {1, 2, 3}
MaxLen = 4
WithUpdatable = FALSE
SPECIFICATION Spec
CONSTRAINT Emit
