CONSTANTS Ids = {1, 2, 3, 4}
MaxLen = 2
WithUpdatable = TRUE
SPECIFICATION Spec
CONSTRAINT Emit
