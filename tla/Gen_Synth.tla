------------------------------- MODULE Gen_Synth ----------------------------
(***************************************************************************)
(* Spec -> code generator for C12.  Two operand schemas are built          *)
(* constituent by constituent from a pool (base sets, terms over X1 / X2 / *)
(* D1 / D2 incl. a power set, an element-typed term, a never-resolving     *)
(* name, a definition text with references), the second with overlapping   *)
(* or disjoint identifiers; then an equation table of at most MaxPairs     *)
(* pairs (operand 1 x operand 2) is chosen.  For every such triple the     *)
(* model (SchemaOps!Synth) says whether the synthesis is defined and what  *)
(* the result and both translations are; SynthContract - the statement of  *)
(* C12 as a predicate - is checked on the model's own result as a TLC      *)
(* invariant, and the case is emitted for replay on ops::BinarySynthes.    *)
(* mode "equate": one schema, table over its own constituents              *)
(* (Ops().IsEquatable / Equate); mode "dups": DeleteDuplicates.            *)
(***************************************************************************)
EXTENDS SchemaOps, Json
CONSTANTS MaxA, MaxB, MaxPairs, Modes

VARIABLES s1, s2, b1, b2, e, e2, md, phase, off
vars == <<s1, s2, b1, b2, e, e2, md, phase, off>>

G1(n) == Glob(n)
Ref(a) == [r |-> TRUE, s |-> a]
Pool == <<
  [k |-> "base", d |-> NoDef, tx |-> <<>>, tm |-> <<>>],                                                        \* 1
  [k |-> "term", d |-> G1("X1"), tx |-> <<>>, tm |-> <<>>],                                                     \* 2  B(X1)
  [k |-> "term", d |-> Node("BOOLEAN", <<G1("X1")>>), tx |-> <<>>, tm |-> <<>>],                                \* 3  BB(X1)
  [k |-> "term", d |-> Node("UNION", <<G1("D1"), G1("X1")>>), tx |-> <<>>, tm |-> <<>>],                        \* 4  depends on D1
  [k |-> "term", d |-> G1("X2"), tx |-> <<>>, tm |-> <<>>],                                                     \* 5  second base set (may be missing)
  [k |-> "term", d |-> G1("X1"), tx |-> <<Ref("D1"), Ref("X1")>>, tm |-> <<>>],                                 \* 6  text mentions D1 (itself, when it is D1) and X1
  [k |-> "term", d |-> Node("SET_MINUS", <<G1("D1"), G1("D2")>>), tx |-> <<>>, tm |-> <<>>],                    \* 7  two terms
  [k |-> "term", d |-> Node("DEBOOL", <<Node("ENUM", <<G1("X1")>>)>>), tx |-> <<>>, tm |-> <<>>],               \* 8  typed B(X1) through debool({X1})
  [k |-> "term", d |-> Node("DEBOOL", <<G1("X1")>>), tx |-> <<>>, tm |-> <<>>],                                 \* 9  an element of X1 (not a set)
  [k |-> "term", d |-> G1("X1"), tx |-> <<Ref("D1"), Ref("D2"), Ref("X1")>>, tm |-> <<>>],          \* 10 text mentions D1, D2, X1
  [k |-> "term", d |-> G1("X1"), tx |-> <<>>, tm |-> <<Ref("X1")>>],                               \* 11 term names X1
  [k |-> "term", d |-> G1("X1"), tx |-> <<>>, tm |-> << Ref("D1"), [r |-> FALSE, s |-> "of"] >> ],    \* 12 term names D1
  [k |-> "term", d |-> Node("UNION", <<G1("D2"), G1("X1")>>), tx |-> <<>>, tm |-> <<>>]            \* 13 depends on D2 (chains D1 <- D2 <- D3)
>>
PoolA == 1..Len(Pool)
PoolB == 1..Len(Pool)
Empty0 == [ord |-> <<>>, c |-> <<>>]
EmplaceF(S, p, u) ==
  LET a == NewName(p.k, AliasesOf(S.c)) IN
  [ord |-> InsertAtPos(S.ord, InsPos(S.ord, S.c, p.k), u), c |-> (u :> [NewRec(a, p.k, p.d) EXCEPT !.text = p.tx, !.term = p.tm]) @@ S.c]
FreshIds == <<101, 102, 103, 104, 105, 106>>

KeepDel == {k \in DOMAIN md : md[k] = "del"}
NewTerm == {k \in DOMAIN md : md[k] = "new"}
SwapNeeded2(k, v) == LET ck == s1.c[k].kind  cv == s2.c[v].kind IN ck # cv /\ ~IsBaseSetKind(ck) /\ IsBaseNotionKind(cv)
Init == SInit /\ s1 = Empty0 /\ s2 = Empty0 /\ b1 = <<>> /\ b2 = <<>> /\ e = <<>> /\ e2 = <<>> /\ md = <<>> /\ phase = "a" /\ off = 0
Next ==
  \/ /\ phase = "a" /\ Len(b1) < MaxA
     /\ \E i \in PoolA : (Len(b1) = 0 => i = 1) /\ s1' = EmplaceF(s1, Pool[i], Len(b1) + 1) /\ b1' = Append(b1, i)
     /\ UNCHANGED <<s2, b2, e, e2, phase, off, md>>
  \/ /\ phase = "a" /\ Len(b1) > 0 /\ "synth" \in Modes
     /\ \E o \in {0, 10} : off' = o /\ phase' = "b" /\ UNCHANGED <<s1, s2, b1, b2, e, e2, md>>
  \/ /\ phase = "a" /\ Len(b1) > 1 /\ "equate" \in Modes /\ phase' = "t1" /\ UNCHANGED <<s1, s2, b1, b2, e, e2, off, md>>
  \/ /\ phase = "b" /\ Len(b2) < MaxB
     /\ \E i \in PoolB : (Len(b2) = 0 => i = 1) /\ s2' = EmplaceF(s2, Pool[i], off + Len(b2) + 1) /\ b2' = Append(b2, i)
     /\ UNCHANGED <<s1, b1, e, e2, phase, off, md>>
  \/ /\ phase = "b" /\ Len(b2) > 0 /\ phase' = "t" /\ UNCHANGED <<s1, s2, b1, b2, e, e2, off, md>>
  \* tables: keys ascending (each table is built once); a value may serve two keys only when no pair has to be swapped
  \/ /\ phase = "t" /\ Cardinality(DOMAIN e) < MaxPairs
     /\ \E k \in DOMAIN s1.c, v \in DOMAIN s2.c :
          /\ \A x \in DOMAIN e : x < k
          /\ (\E x \in DOMAIN e : e[x] = v) => (~SwapNeeded2(k, v) /\ \A x \in DOMAIN e : ~SwapNeeded2(x, e[x]))
          /\ e' = (k :> v) @@ e
     /\ UNCHANGED <<s1, s2, b1, b2, e2, phase, off, md>>
  \/ /\ phase = "t" /\ phase' = "done" /\ UNCHANGED <<s1, s2, b1, b2, e, e2, off, md>>
  \/ /\ phase = "t1" /\ Cardinality(DOMAIN e) < MaxPairs
     /\ \E k \in DOMAIN s1.c, v \in DOMAIN s1.c, m \in {"hier", "del", "new"} :
          /\ (\A x \in DOMAIN e : x < k) /\ e' = (k :> v) @@ e /\ md' = (k :> m) @@ md
          \* two keys on one value: their options would compete for the survivor's texts (order of processing) - only the default there
          /\ (\E x \in DOMAIN e : e[x] = v) => (m = "hier" /\ \A x \in DOMAIN e : e[x] = v => md[x] = "hier")
     /\ UNCHANGED <<s1, s2, b1, b2, e2, phase, off>>
  \/ /\ phase = "t1" /\ phase' = "done1" /\ UNCHANGED <<s1, s2, b1, b2, e, e2, off, md>>
  \* a second table on the result of the first (the same RSForm is equated twice)
  \/ /\ phase = "t1" /\ "equate2" \in Modes /\ DOMAIN e # {} /\ EqAdmissible(s1, e)
     /\ LET r == EquateM(s1, e, KeepDel, NewTerm) IN \E k \in DOMAIN r.c, v \in DOMAIN r.c : k # v /\ e2' = (k :> v)
     /\ phase' = "done2" /\ UNCHANGED <<s1, s2, b1, b2, e, off, md>>
\* the variables of Schema.tla are not used here (schemas are values); they stay empty
Spec == Init /\ [][Next /\ UNCHANGED svars]_<<vars, svars>>

\* ---------------------------------------------------------------- what is emitted
Toks(d) == IF d = NoDef THEN <<>> ELSE Render(d, 0).t
Steps(b, o) == [i \in DOMAIN b |-> [uid |-> o + i, k |-> Pool[b[i]].k, d |-> Toks(Pool[b[i]].d), tx |-> Pool[b[i]].tx, tm |-> Pool[b[i]].tm]]
Items(ord, c) ==
  LET an == Analysis(c) IN
  [i \in DOMAIN ord |-> LET u == ord[i]  r == an[c[u].alias] IN
     [uid |-> u, alias |-> c[u].alias, kind |-> c[u].kind, d |-> Toks(c[u].def), tx |-> c[u].text, tm |-> c[u].term, ok |-> r.ok, type |-> IF r.ok THEN TypeStr(r.type) ELSE ""]]
PairsOf(f) == LET ks == SetToSeq(DOMAIN f) IN [i \in DOMAIN ks |-> <<ks[i], f[ks[i]]>>]
SynthCase ==
  LET r == Synth(s1, s2, e, FreshIds) IN
  [mode |-> "synth", a |-> Steps(b1, 0), b |-> Steps(b2, off), table |-> PairsOf(e), fresh |-> FreshIds,
   defined |-> r.defined,
   items |-> IF r.defined THEN Items(r.ord, r.c) ELSE <<>>,
   t1 |-> IF r.defined THEN PairsOf(r.t1) ELSE <<>>, t2 |-> IF r.defined THEN PairsOf(r.t2) ELSE <<>>,
   keys |-> SetToSeq(DOMAIN r.table), mtr |-> PairsOf(r.mtr),
   noDangling1 |-> NoDangling(s1), noDangling2 |-> NoDangling(s2),
   correct |-> FullyCorrect(s1) /\ FullyCorrect(s2), like |-> LikeWithLike(r.merged.c, r.table)]
Triples == LET ks == SetToSeq(DOMAIN e) IN [i \in DOMAIN ks |-> <<ks[i], e[ks[i]], md[ks[i]]>>]
EquateCase ==
  LET ok == EqAdmissible(s1, e)
      r == EquateM(s1, e, KeepDel, NewTerm) IN
  [mode |-> "equate", a |-> Steps(b1, 0), table |-> Triples, defined |-> ok,
   items |-> IF ok THEN Items(r.ord, r.c) ELSE <<>>,
   tr |-> IF ok THEN PairsOf([u \in DOMAIN s1.c |-> FinalOf(u, r.pairs, 8)]) ELSE <<>>,
   noDangling1 |-> NoDangling(s1), correct |-> FullyCorrect(s1), like |-> LikeWithLike(s1.c, e)]
Equate2Case ==
  LET r1 == EquateM(s1, e, KeepDel, NewTerm)
      S == [ord |-> r1.ord, c |-> r1.c]
      ok == EqAdmissible(S, e2)
      r == Equate(S, e2, {}) IN
  [mode |-> "equate2", a |-> Steps(b1, 0), first |-> Triples, table |-> PairsOf(e2), defined |-> ok,
   items |-> IF ok THEN Items(r.ord, r.c) ELSE <<>>,
   tr |-> IF ok THEN PairsOf([u \in DOMAIN S.c |-> FinalOf(u, r.pairs, 8)]) ELSE <<>>,
   noDangling1 |-> NoDangling(S), correct |-> FullyCorrect(S), like |-> LikeWithLike(S.c, e2)]
Emit == CASE phase = "done" -> PrintT(<<"CASE", ToJson(SynthCase)>>)
          [] phase = "done2" -> PrintT(<<"CASE", ToJson(Equate2Case)>>)
          [] phase = "done1" -> PrintT(<<"CASE", ToJson(EquateCase)>>)
          [] OTHER -> TRUE

\* C12 as a theorem about the model: whenever the synthesis is defined its result satisfies the statement
ContractHolds ==
  phase = "done" => LET r == Synth(s1, s2, e, FreshIds) IN r.defined => SynthContract(s1, s2, e, r)
=============================================================================
