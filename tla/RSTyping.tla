------------------------------- MODULE RSTyping -----------------------------
(***************************************************************************)
(* The typing rules of RSLang (what ccl::rslang::TypeAuditor implements),  *)
(* transcribed as a function TypeOf(tree, G, F, L, inDecl) into            *)
(* typifications (RSTypes) or Bad(reason).  C02, C03 (and the oracle for   *)
(* schema analysis in C07).                                                 *)
(*   G : global name -> type        F : function name -> [args : Seq([name, type])]  *)
(*   L : local name -> type (bound variables in scope)                      *)
(* CASE arms are evaluated in order; the order mirrors the order in which  *)
(* the checker looks at things.                                             *)
(***************************************************************************)
EXTENDS RSTypes, TLC

CONSTANT ConstIds        \* base ids that are integer-like constant sets (C1, C2, ...)

IsArith(t)   == t.k = "Z" \/ (t.k = "base" /\ t.id \in ConstIds)
IsOrdered(t) == IsArith(t)
ConvInt(t)   == t.k = "base" /\ t.id \in ConstIds
\* the common type of two *basic* types one of which is Z (else Bad)
Common(a, b) == IF a.k = "Z" /\ ConvInt(b) THEN b ELSE IF b.k = "Z" /\ ConvInt(a) THEN a ELSE Bad("merge")

RECURSIVE Merge(_, _)
Merge(a, b) ==
  IF a = b THEN a
  ELSE IF a.k = "any" THEN b
  ELSE IF b.k = "any" THEN a
  ELSE IF a.k \in {"Z", "base", "rad"} /\ b.k \in {"Z", "base", "rad"} THEN Common(a, b)
  ELSE IF a.k # b.k THEN Bad("merge")
  ELSE IF a.k = "bool" THEN LET m == Merge(a.c[1], b.c[1]) IN IF IsBad(m) THEN m ELSE TBool(m)
  ELSE IF a.k = "tuple" /\ Len(a.c) = Len(b.c) THEN
         LET ms == [i \in 1..Len(a.c) |-> Merge(a.c[i], b.c[i])]
         IN IF \E i \in 1..Len(ms) : IsBad(ms[i]) THEN Bad("merge") ELSE TTuple(ms)
  ELSE Bad("merge")
Compat(a, b) == ~IsBad(Merge(a, b))
Deb(t) == IF t.k = "any" THEN t ELSE IF t.k = "bool" THEN t.c[1] ELSE Bad("notset")

\* substitution of radicals; unsubstituted radicals get the function name appended (mangling)
RECURSIVE SubstRad(_, _, _)
SubstRad(t, sub, fname) ==
  CASE t.k = "rad" -> IF t.id \in DOMAIN sub THEN sub[t.id] ELSE TRad(t.id \o fname)
    [] t.k = "bool" -> TBool(SubstRad(t.c[1], sub, fname))
    [] t.k = "tuple" -> TTuple([i \in 1..Len(t.c) |-> SubstRad(t.c[i], sub, fname)])
    [] OTHER -> t

\* CompareTemplated: returns [ok, sub]
RECURSIVE CmpT(_, _, _)
CmpT(sub, arg, val) ==
  IF arg = val THEN [ok |-> TRUE, sub |-> sub]
  ELSE IF arg.k = "rad" THEN
         IF arg.id \notin DOMAIN sub
         THEN [ok |-> TRUE, sub |-> [x \in DOMAIN sub \cup {arg.id} |-> IF x = arg.id THEN val ELSE sub[x]]]
         ELSE LET m == Merge(sub[arg.id], val)
              IN IF IsBad(m) THEN [ok |-> FALSE, sub |-> sub]
                 ELSE [ok |-> TRUE, sub |-> [x \in DOMAIN sub |-> IF x = arg.id THEN m ELSE sub[x]]]
  ELSE IF val.k = "any" THEN [ok |-> TRUE, sub |-> sub]
  ELSE IF arg.k \in {"Z", "base"} /\ val.k \in {"Z", "base", "rad"} THEN [ok |-> ~IsBad(Common(arg, val)), sub |-> sub]
  ELSE IF arg.k # val.k THEN [ok |-> FALSE, sub |-> sub]
  ELSE IF arg.k = "bool" THEN CmpT(sub, arg.c[1], val.c[1])
  ELSE IF arg.k = "tuple" /\ Len(arg.c) = Len(val.c) THEN
         LET RECURSIVE F(_, _)
             F(i, s) == IF i > Len(arg.c) THEN [ok |-> TRUE, sub |-> s]
                        ELSE LET r == CmpT(s, arg.c[i], val.c[i]) IN IF r.ok THEN F(i+1, r.sub) ELSE r
         IN F(1, sub)
  ELSE [ok |-> FALSE, sub |-> sub]

-----------------------------------------------------------------------------
(* Trees: uniform record [id, s, n, ix, ch]                                *)
Node(id, ch)      == [id |-> id, s |-> "", n |-> 0, ix |-> <<>>, ch |-> ch]
Glob(name)        == [id |-> "GLOBAL", s |-> name, n |-> 0, ix |-> <<>>, ch |-> <<>>]
Loc(name)         == [id |-> "LOCAL",  s |-> name, n |-> 0, ix |-> <<>>, ch |-> <<>>]
Rad(name)         == [id |-> "RADICAL", s |-> name, n |-> 0, ix |-> <<>>, ch |-> <<>>]
IntLit(v)         == [id |-> "INT",    s |-> "",   n |-> v, ix |-> <<>>, ch |-> <<>>]
Empty             == [id |-> "EMPTY",  s |-> "",   n |-> 0, ix |-> <<>>, ch |-> <<>>]
Idx(id, ix, ch)   == [id |-> id, s |-> "", n |-> 0, ix |-> ix, ch |-> ch]
Call(f, args)     == [id |-> "CALL", s |-> f, n |-> 0, ix |-> <<>>, ch |-> args]

SetBin   == {"UNION", "INTERSECTION", "SET_MINUS", "SYMMINUS"}
ElemPred == {"IN", "NOTIN"}
SubPred  == {"SUBSET", "SUBSET_OR_EQ", "NOTSUBSET"}
EqPred   == {"EQUAL", "NOTEQUAL"}
OrdPred  == {"GREATER", "LESSER", "GREATER_OR_EQ", "LESSER_OR_EQ"}
Arith    == {"PLUS", "MINUS", "MULTIPLY"}
LogBin   == {"AND", "OR", "IMPLICATION", "EQUIVALENT"}
Quant    == {"FORALL", "EXISTS"}
Preds    == ElemPred \cup SubPred \cup EqPred \cup OrdPred
NoEmptyChild == {"CARD", "DEBOOL", "REDUCE", "BIGPR", "SMALLPR"} \cup SetBin

Ext(f, k, v) == [x \in DOMAIN f \cup {k} |-> IF x = k THEN v ELSE f[x]]
InRange(ix, n) == \A i \in 1..Len(ix) : ix[i] >= 1 /\ ix[i] <= n
Select(c, ix)  == [i \in 1..Len(ix) |-> c[ix[i]]]

-----------------------------------------------------------------------------
(* Typing. G: global -> type; F: function name -> [args: Seq([name,type]), res: type];
   L: local -> type. Declarations: LOCAL | TUPLEDECL(ch) ; ENUMDECL(ch) in quantifiers *)

\* bind a declaration pattern to a type: returns extended L or the string "BAD:why"
RECURSIVE BindT(_, _, _)
BindT(d, t, L) ==
  IF d.id = "LOCAL" THEN IF d.s \in DOMAIN L THEN [bad |-> "shadow"] ELSE [bad |-> "", L |-> Ext(L, d.s, t)]
  ELSE \* TUPLEDECL
    IF t.k # "tuple" \/ Len(t.c) # Len(d.ch) THEN [bad |-> "binding"]
    ELSE LET RECURSIVE B(_, _)
             B(i, acc) == IF i > Len(d.ch) THEN [bad |-> "", L |-> acc]
                          ELSE LET r == BindT(d.ch[i], t.c[i], acc) IN IF r.bad # "" THEN r ELSE B(i+1, r.L)
         IN B(1, L)
\* enumerated declaration: every variable gets the same type
BindAllT(d, t, L) ==
  IF d.id # "ENUMDECL" THEN BindT(d, t, L)
  ELSE LET RECURSIVE B(_, _)
           B(i, acc) == IF i > Len(d.ch) THEN [bad |-> "", L |-> acc]
                        ELSE LET r == BindT(d.ch[i], t, acc) IN IF r.bad # "" THEN r ELSE B(i+1, r.L)
       IN B(1, L)

ForceT(f) == f @@ <<>>
RECURSIVE TypeOf(_, _, _, _, _)
TypeOf(e, G, F, L, inDecl) ==
  LET \* children of plain operators are typed once (a TLC function lambda would be re-evaluated at every application; ForceT makes a table);
      \* binders type their children under extended environments and do it themselves
      Plain == e.id \notin Quant \cup {"DECLARATIVE", "REC_SHORT", "REC_FULL", "IMPERATIVE", "FUNCDEF", "ARGS", "ARG", "ITERATE", "ASSIGN", "TUPLEDECL", "ENUMDECL"}
      TS == IF Plain THEN ForceT([i \in 1..Len(e.ch) |-> TypeOf(e.ch[i], G, F, L, inDecl)]) ELSE <<>>
      T(i)  == IF Plain THEN TS[i] ELSE TypeOf(e.ch[i], G, F, L, inDecl)
      TL(x, LL) == TypeOf(x, G, F, LL, inDecl)
      N     == Len(e.ch)
      AnyBad == \E i \in 1..N : IsBad(T(i))
      FirstBad == T(CHOOSE i \in 1..N : IsBad(T(i)) /\ \A j \in 1..(i-1) : ~IsBad(T(j)))
      EmptyChild == \E i \in 1..N : e.ch[i].id = "EMPTY"
  IN
  CASE e.id = "INT"    -> TZ
    [] e.id = "EMPTY"  -> TBool(TAny)
    [] e.id = "GLOBAL" -> IF e.s \in DOMAIN F THEN Bad("funcNoArgs") ELSE IF e.s \in DOMAIN G THEN G[e.s] ELSE Bad("untyped")
    [] e.id = "LOCAL"  -> IF e.s \in DOMAIN L THEN L[e.s] ELSE Bad("undeclared")
    [] e.id = "RADICAL" -> IF inDecl THEN TBool(TRad(e.s)) ELSE Bad("radical")
    \* a LOGIC-typed global (axiom, theorem) is grammatically an identifier but has no admissible use as an operand
    [] \E i \in 1..N : e.ch[i].id = "GLOBAL" /\ e.ch[i].s \in DOMAIN G /\ e.ch[i].s \notin DOMAIN F /\ G[e.ch[i].s].k = "logic" -> Bad("logicOperand")
    [] e.id \in NoEmptyChild /\ EmptyChild -> Bad("emptyset")
    [] e.id \in Quant \cup {"DECLARATIVE"} ->
         LET dom == TL(e.ch[2], L) IN
         IF IsBad(dom) THEN dom
         ELSE IF IsBad(Deb(dom)) THEN Bad("notset")
         ELSE LET b == BindAllT(e.ch[1], Deb(dom), L) IN
              IF b.bad # "" THEN Bad(b.bad)
              ELSE LET body == TL(e.ch[3], b.L) IN
                   IF IsBad(body) THEN body
                   ELSE IF e.id = "DECLARATIVE" THEN TBool(Deb(dom)) ELSE TLogic
    [] e.id \in {"REC_SHORT", "REC_FULL"} ->
         \* ch = <<decl, init, body>> or <<decl, init, cond, body>>
         LET init == TL(e.ch[2], L)
             bodyE == e.ch[N]
         IN IF IsBad(init) THEN init
            ELSE LET b0 == BindT(e.ch[1], init, L) IN
                 IF b0.bad # "" THEN Bad(b0.bad)
                 ELSE LET it0 == TL(bodyE, b0.L) IN
                      IF IsBad(it0) THEN it0
                      ELSE IF ~Compat(it0, init) THEN Bad("typesNotEqual")
                      ELSE LET RECURSIVE Loop(_, _)
                               Loop(k, it) ==
                                 LET b == BindT(e.ch[1], it, L) IN
                                 IF b.bad # "" THEN [t |-> Bad(b.bad), L |-> L]
                                 ELSE LET nt == TL(bodyE, b.L) IN
                                      IF IsBad(nt) THEN [t |-> nt, L |-> b.L]
                                      ELSE IF nt = it THEN [t |-> it, L |-> b.L]
                                      ELSE IF k = 1 THEN [t |-> Bad("recursionDiverges"), L |-> b.L]   \* no round reproduced its own type
                                      ELSE Loop(k - 1, nt)
                               r == Loop(5, it0)
                           IN IF IsBad(r.t) THEN r.t
                              ELSE IF e.id = "REC_FULL" /\ IsBad(TL(e.ch[3], r.L)) THEN TL(e.ch[3], r.L)
                              ELSE r.t
    [] e.id = "IMPERATIVE" ->
         \* ch = <<value, block1, ...>>
         LET RECURSIVE Blocks(_, _)
             Blocks(i, LL) ==
               IF i > N THEN [bad |-> "", L |-> LL]
               ELSE LET blk == e.ch[i] IN
                    IF blk.id = "ITERATE" THEN
                      LET d == TL(blk.ch[2], LL) IN
                      IF IsBad(d) THEN [bad |-> d.id]
                      ELSE IF IsBad(Deb(d)) THEN [bad |-> "notset"]
                      ELSE LET b == BindT(blk.ch[1], Deb(d), LL) IN IF b.bad # "" THEN b ELSE Blocks(i+1, b.L)
                    ELSE IF blk.id = "ASSIGN" THEN
                      LET d == TL(blk.ch[2], LL) IN
                      IF IsBad(d) THEN [bad |-> d.id]
                      ELSE LET b == BindT(blk.ch[1], d, LL) IN IF b.bad # "" THEN b ELSE Blocks(i+1, b.L)
                    ELSE LET g == TL(blk, LL) IN IF IsBad(g) THEN [bad |-> g.id] ELSE Blocks(i+1, LL)
             bl == Blocks(2, L)
         IN IF bl.bad # "" THEN Bad(bl.bad)
            ELSE LET v == TL(e.ch[1], bl.L) IN IF IsBad(v) THEN v ELSE TBool(v)
    [] e.id = "BAD" -> Bad("syntax")
    [] e.id = "FUNCDEF" ->
         \* arguments left to right: a : debool(type of its domain), radicals allowed in domains only; result = type of the body
         LET args == e.ch[1]
             RECURSIVE Bind(_, _)
             Bind(i, LL) ==
               IF i > Len(args.ch) THEN [bad |-> "", L |-> LL]
               ELSE LET d == TypeOf(args.ch[i].ch[2], G, F, LL, TRUE) IN
                    IF IsBad(d) THEN [bad |-> d.id]
                    ELSE IF IsBad(Deb(d)) THEN [bad |-> "notset"]
                    ELSE LET b == BindT(args.ch[i].ch[1], Deb(d), LL) IN IF b.bad # "" THEN b ELSE Bind(i + 1, b.L)
             b == Bind(1, L)
         IN IF b.bad # "" THEN Bad(b.bad) ELSE TypeOf(e.ch[2], G, F, b.L, inDecl)
    [] e.id = "CALL" ->
         IF e.s \notin DOMAIN G THEN Bad("untyped")
         ELSE IF e.s \notin DOMAIN F THEN Bad("funcMissing")
         ELSE IF Len(F[e.s].args) # N THEN Bad("arity")
         ELSE LET RECURSIVE A(_, _)
                  A(i, sub) == IF i > N THEN [ok |-> TRUE, sub |-> sub]
                               ELSE LET at == T(i) IN
                                    IF IsBad(at) \/ at.k = "logic" THEN [ok |-> FALSE, sub |-> sub]
                                    ELSE LET r == CmpT(sub, SubstRad(F[e.s].args[i].type, [x \in {} |-> TAny], e.s), at)
                                         IN IF r.ok THEN A(i+1, r.sub) ELSE r
                  r == A(1, [x \in {} |-> TAny])
                  \* substitution keys are mangled names
              IN IF ~r.ok THEN Bad("argtype")
                 ELSE IF G[e.s].k = "logic" THEN TLogic
                 ELSE LET mangled == SubstRad(G[e.s], [x \in {} |-> TAny], e.s)
                          RECURSIVE Ap(_)
                          Ap(t) == CASE t.k = "rad" -> IF t.id \in DOMAIN r.sub THEN r.sub[t.id] ELSE t
                                     [] t.k = "bool" -> TBool(Ap(t.c[1]))
                                     [] t.k = "tuple" -> TTuple([i \in 1..Len(t.c) |-> Ap(t.c[i])])
                                     [] OTHER -> t
                      IN Ap(mangled)
    [] e.id = "FILTER" ->
         \* ch = <<param1, ..., paramK, arg>>
         LET tupleParam == Len(e.ix) = N - 1 IN
         IF ~tupleParam /\ N > 2 THEN Bad("filterArity")
         ELSE LET a == T(N) IN
              IF IsBad(a) THEN a
              ELSE IF a.k = "any" \/ (a.k = "bool" /\ a.c[1].k = "any") THEN TBool(TAny)
              ELSE IF ~(a.k = "bool" /\ a.c[1].k = "tuple") THEN Bad("filterArg")
              ELSE IF ~InRange(e.ix, Len(a.c[1].c)) THEN Bad("filterArg")
              ELSE LET bases == Select(a.c[1].c, e.ix) IN
                   IF tupleParam THEN
                     LET RECURSIVE P(_)
                         P(i) == IF i > N - 1 THEN a
                                 ELSE LET p == T(i) IN
                                      IF IsBad(p) THEN p
                                      ELSE IF p.k # "bool" \/ ~Compat(bases[i], p.c[1]) THEN Bad("typesNotEqual")
                                      ELSE P(i+1)
                     IN P(1)
                   ELSE LET p == T(1) IN
                        IF IsBad(p) THEN p
                        ELSE IF p.k # "bool" \/ ~Compat(TBool(TTuple(bases)), p) THEN Bad("typesNotEqual")
                        ELSE a
    [] AnyBad -> FirstBad
    [] e.id \in LogBin \cup {"NOT"} -> TLogic     \* operands are logic by grammar
    [] e.id \in SetBin ->
         IF IsBad(Deb(T(1))) \/ IsBad(Deb(T(2))) THEN Bad("notset")
         ELSE LET m == Merge(Deb(T(1)), Deb(T(2))) IN IF IsBad(m) THEN Bad("typesNotEqual") ELSE TBool(m)
    [] e.id \in ElemPred ->
         IF IsBad(Deb(T(2))) THEN Bad("notset")
         ELSE IF Compat(T(1), Deb(T(2))) THEN TLogic ELSE Bad("elempred")
    [] e.id \in SubPred ->
         IF IsBad(Deb(T(2))) THEN Bad("notset")
         ELSE IF Compat(T(1), TBool(Deb(T(2)))) THEN TLogic ELSE Bad("typesNotEqual")
    [] e.id \in EqPred -> IF Compat(T(1), T(2)) THEN TLogic ELSE Bad("notcompat")
    [] e.id \in OrdPred ->
         IF ~IsOrdered(T(1)) \/ ~IsOrdered(T(2)) THEN Bad("noorder")
         ELSE IF Compat(T(1), T(2)) THEN TLogic ELSE Bad("notcompat")
    [] e.id \in Arith ->
         IF ~IsArith(T(1)) \/ ~IsArith(T(2)) THEN Bad("noarith")
         ELSE LET m == Merge(T(1), T(2)) IN IF IsBad(m) THEN Bad("notcompat") ELSE m
    [] e.id = "CARD" -> IF IsBad(Deb(T(1))) THEN Bad("notset") ELSE TZ
    [] e.id = "DEBOOL" -> Deb(T(1))
    [] e.id = "BOOL" -> TBool(T(1))
    [] e.id = "BOOLEAN" -> IF IsBad(Deb(T(1))) THEN Bad("notset") ELSE TBool(TBool(Deb(T(1))))
    [] e.id = "DECART" ->
         IF \E i \in 1..N : IsBad(Deb(T(i))) THEN Bad("notset")
         ELSE TBool(TTuple([i \in 1..N |-> Deb(T(i))]))
    [] e.id = "TUPLE" -> TTuple([i \in 1..N |-> T(i)])
    [] e.id = "ENUM" ->
         LET RECURSIVE M(_, _)
             M(i, acc) == IF i > N THEN acc
                          ELSE LET m == Merge(acc, T(i)) IN IF IsBad(m) THEN Bad("enum") ELSE M(i+1, m)
             r == M(2, T(1))
         IN IF IsBad(r) THEN r ELSE TBool(r)
    [] e.id = "REDUCE" ->
         LET a == T(1) IN
         IF a.k = "any" \/ (a.k = "bool" /\ a.c[1].k = "any") THEN TBool(TAny)
         ELSE IF a.k = "bool" /\ a.c[1].k = "bool" THEN a.c[1] ELSE Bad("reduce")
    [] e.id = "BIGPR" ->
         LET a == Deb(T(1)) IN
         IF IsBad(a) THEN Bad("prset")
         ELSE IF a.k = "any" THEN TBool(TAny)
         ELSE IF a.k # "tuple" \/ ~InRange(e.ix, Len(a.c)) THEN Bad("prset")
         ELSE TBool(TTuple(Select(a.c, e.ix)))
    [] e.id = "SMALLPR" ->
         LET a == T(1) IN
         IF a.k = "any" THEN a
         ELSE IF a.k # "tuple" \/ ~InRange(e.ix, Len(a.c)) THEN Bad("prtuple")
         ELSE TTuple(Select(a.c, e.ix))
    [] OTHER -> Bad("unsupported")

\* declared arguments of a function definition: Seq([name, type]) (defined when TypeOf accepts the definition)
ArgsOf(e, G, F) ==
  IF e.id # "FUNCDEF" THEN <<>>
  ELSE LET args == e.ch[1]
           RECURSIVE Col(_, _, _)
           Col(i, LL, acc) ==
             IF i > Len(args.ch) THEN acc
             ELSE LET t == Deb(TypeOf(args.ch[i].ch[2], G, F, LL, TRUE)) IN
                  Col(i + 1, Ext(LL, args.ch[i].ch[1].s, t), Append(acc, [name |-> args.ch[i].ch[1].s, type |-> t]))
       IN Col(1, [x \in {} |-> TAny], <<>>)

\* global names mentioned by a tree (identifiers, called functions) - what the dependency graph is built from
RECURSIVE Mentions(_)
Mentions(e) == (IF e.id \in {"GLOBAL", "CALL"} THEN {e.s} ELSE {}) \cup UNION {Mentions(e.ch[i]) : i \in 1..Len(e.ch)}

\* simultaneous renaming of global names (whole identifiers only; locals and radicals are untouched)
RECURSIVE RenameTree(_, _)
RenameTree(e, map) ==
  [e EXCEPT !.s = IF e.id \in {"GLOBAL", "CALL"} /\ e.s \in DOMAIN map THEN map[e.s] ELSE e.s,
            !.ch = [i \in 1..Len(e.ch) |-> RenameTree(e.ch[i], map)]]

-----------------------------------------------------------------------------
(* Value-class audit (ValueAuditor): does the expression denote a value that can be computed ("value"), only a      *)
(* property that can be tested ("props": a power set, the integers, a product with such a factor ...), or is the     *)
(* use of a property where a value is needed an error ("invalid").                                                   *)
(* GC: global -> class; FB: function -> [args: Seq(name), body]; LP: the local names that stand for properties      *)
(* (arguments of a term-function that were given properties).                                                        *)
RECURSIVE VClass(_, _, _, _)
VClass(e, GC, FB, LP) ==
  LET VS == ForceT([i \in 1..Len(e.ch) |-> VClass(e.ch[i], GC, FB, LP)])
      V(i) == VS[i]
      N == Len(e.ch)
      AllOK == \A i \in 1..N : V(i) # "invalid"
      AllValue == \A i \in 1..N : V(i) = "value"
  IN
  CASE e.id \in {"INT", "EMPTY", "RADICAL"} -> "value"
    [] e.id = "INTSET" -> "props"
    [] e.id = "GLOBAL" -> IF e.s \in DOMAIN GC THEN GC[e.s] ELSE "invalid"
    [] e.id = "LOCAL" -> IF e.s \in LP THEN "props" ELSE "value"
    [] e.id \in {"TUPLEDECL", "ENUMDECL", "NOT"} \cup Arith \cup LogBin \cup OrdPred -> IF AllOK THEN "value" ELSE "invalid"
    [] e.id \in {"CARD", "BOOL", "DEBOOL", "BIGPR", "SMALLPR", "REDUCE"} -> IF V(1) = "value" THEN "value" ELSE "invalid"
    [] e.id \in Quant -> IF V(2) = "value" THEN V(3) ELSE "invalid"                       \* the domain must be a value
    [] e.id \in EqPred \cup {"SUBSET", "NOTSUBSET", "TUPLE", "ENUM", "REC_SHORT", "REC_FULL"} -> IF AllValue THEN "value" ELSE "invalid"
    [] e.id \in {"IN", "NOTIN", "SUBSET_OR_EQ"} -> IF V(2) # "invalid" /\ V(1) = "value" THEN "value" ELSE "invalid"   \* membership in a property is fine
    [] e.id = "DECART" -> IF ~AllOK THEN "invalid" ELSE IF \E i \in 1..N : V(i) = "props" THEN "props" ELSE "value"
    [] e.id = "BOOLEAN" -> IF V(1) # "invalid" THEN "props" ELSE "invalid"
    [] e.id = "DECLARATIVE" -> IF V(3) # "invalid" THEN V(2) ELSE "invalid"               \* a separation from a property is a property
    [] e.id = "IMPERATIVE" -> IF (\A i \in 2..N : V(i) # "invalid") /\ V(1) = "value" THEN "value" ELSE "invalid"
    [] e.id \in {"ITERATE", "ASSIGN"} -> IF V(2) = "value" THEN "value" ELSE "invalid"
    [] e.id \in SetBin ->
         IF V(1) = "invalid" \/ V(2) = "invalid" THEN "invalid"
         ELSE LET a == V(1) = "value"  b == V(2) = "value"
                  r == CASE e.id \in {"UNION", "SYMMINUS"} -> a /\ b [] e.id = "INTERSECTION" -> a \/ b [] OTHER -> a
              IN IF r THEN "value" ELSE "props"
    [] e.id = "FILTER" -> IF AllOK THEN V(N) ELSE "invalid"
    [] e.id = "CALL" ->
         IF e.s \notin DOMAIN GC \/ GC[e.s] = "invalid" \/ ~AllOK THEN "invalid"
         ELSE IF AllValue THEN GC[e.s]
         ELSE IF e.s \notin DOMAIN FB THEN "invalid"
         ELSE VClass(FB[e.s].body, GC, FB, {FB[e.s].args[i] : i \in {j \in 1..N : V(j) = "props"}})
    [] e.id = "FUNCDEF" ->      \* every argument domain is audited, the class is the body's
         IF \A i \in 1..Len(e.ch[1].ch) : VClass(e.ch[1].ch[i].ch[2], GC, FB, LP) # "invalid" THEN V(2) ELSE "invalid"
    [] OTHER -> "invalid"
=============================================================================
