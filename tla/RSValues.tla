------------------------------- MODULE RSValues -----------------------------
(***************************************************************************)
(* Values of RSLang: elements are integers, tuples are sequences (length   *)
(* >= 2), sets are TLA+ sets.  Everything here is type-directed because a  *)
(* JSON array cannot tell a set from a tuple and TLC cannot compare unlike *)
(* values.  Less is the library's total order inside sets.                 *)
(***************************************************************************)
EXTENDS RSTypes, SequencesExt

RECURSIVE Dom(_, _)
\* all values of typification t over the interpretation U : base id -> set of integers
Dom(t, U) ==
  CASE t.k = "base" -> U[t.id]
    [] t.k = "bool" -> SUBSET Dom(t.c[1], U)
    [] t.k = "tuple" ->
         LET RECURSIVE P(_)
             P(i) == IF i > Len(t.c) THEN {<<>>} ELSE {<<h>> \o r : h \in Dom(t.c[i], U), r \in P(i + 1)}
         IN P(1)

RECURSIVE Less(_, _, _)
SortBy(S, t) == SetToSortSeq(S, LAMBDA x, y : Less(x, y, t))
\* strict total order on values of one typification: integers by value, tuples lexicographically,
\* sets by cardinality first and then by the first difference of their ascending element sequences
Less(x, y, t) ==
  CASE t.k = "tuple" ->
         LET D == {i \in 1..Len(t.c) : x[i] # y[i]}
         IN D # {} /\ LET i == CHOOSE j \in D : \A m \in D : j <= m IN Less(x[i], y[i], t.c[i])
    [] t.k = "bool" ->
         IF Cardinality(x) # Cardinality(y) THEN Cardinality(x) < Cardinality(y)
         ELSE LET sx == SortBy(x, t.c[1])  sy == SortBy(y, t.c[1])
                  D == {i \in 1..Len(sx) : sx[i] # sy[i]}
              IN D # {} /\ LET i == CHOOSE j \in D : \A m \in D : j <= m IN Less(sx[i], sy[i], t.c[1])
    [] OTHER -> x < y

RECURSIVE CompatV(_, _)
\* v has the structure of typification t (element / tuple of the right arity / set, recursively)
\* Note: only meaningful for values built type-directed; used on decoded wire values by the harness instead.
CompatV(v, t) == CASE t.k = "bool" -> \A e \in v : CompatV(e, t.c[1])
                   [] t.k = "tuple" -> Len(v) = Len(t.c) /\ \A i \in 1..Len(t.c) : CompatV(v[i], t.c[i])
                   [] OTHER -> v \in Int

RECURSIVE Enc(_, _)
\* wire encoding: element -> integer, tuple -> [t |-> <<..>>], set -> [s |-> <<..>>] in ascending (iteration) order
Enc(v, t) == CASE t.k = "tuple" -> [t |-> [i \in 1..Len(t.c) |-> Enc(v[i], t.c[i])]]
               [] t.k = "bool" -> [s |-> LET q == SortBy(v, t.c[1]) IN [i \in 1..Len(q) |-> Enc(q[i], t.c[1])]]
               [] OTHER -> v

RECURSIVE WellShaped(_, _)
\* a decoded wire value (JSON: integer | [t |-> seq] | [s |-> seq]) has the structure of typification t
WellShaped(j, t) ==
  CASE t.k = "bool" -> /\ DOMAIN j = {"s"}
                       /\ \A i \in DOMAIN j.s : WellShaped(j.s[i], t.c[1])
    [] t.k = "tuple" -> /\ DOMAIN j = {"t"} /\ Len(j.t) = Len(t.c)
                        /\ \A i \in 1..Len(t.c) : WellShaped(j.t[i], t.c[i])
    [] OTHER -> j \in Int

RECURSIVE Dec(_, _)
\* inverse of Enc for well-shaped wire values
Dec(j, t) == CASE t.k = "bool" -> {Dec(j.s[i], t.c[1]) : i \in DOMAIN j.s}
               [] t.k = "tuple" -> [i \in 1..Len(t.c) |-> Dec(j.t[i], t.c[i])]
               [] OTHER -> j
=============================================================================
