CONSTANTS ConstIds = {"C1"}
WrapSet = "all"
SPECIFICATION Spec
INVARIANT Sound
CONSTRAINT Emit
