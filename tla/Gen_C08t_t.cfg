CONSTANTS ConstIds = {"C1"}
MaxAtoms = 3
SPECIFICATION Spec
CONSTRAINT Emit
