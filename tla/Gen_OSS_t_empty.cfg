CONSTANTS MaxLen = 6
MaxPict = 4
Preset = "empty"
SPECIFICATION Spec
INVARIANT StructureInv
INVARIANT FreshInv
CONSTRAINT Emit
