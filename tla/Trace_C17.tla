------------------------------ MODULE Trace_C17 -----------------------------
(* Code -> spec for C17: calls recorded on long random texts (10-30 atoms) and random   *)
(* Insert / EraseIn sequences on a real RefsManager; TLC recomputes extraction,           *)
(* resolution structure, write-back and the range contracts from Refs.tla.                *)
EXTENDS Refs, TLC, Json, IOUtils
VARIABLES l, seen
TraceLog == ndJsonDeserialize(IOEnv.TRACE)
NoObs == [e |-> "none"]
TInit == l = 1 /\ seen = NoObs
TNext == l <= Len(TraceLog) /\ l' = l + 1 /\ seen' = TraceLog[l]
TSpec == TInit /\ [][TNext]_<<l, seen>>

Ctx == (<<88, 49>> :> [nominal |-> <<1095, 1077, 1083, 1086, 1074, 1077, 1082>>, manual |-> <<>>])
    @@ (<<88, 50>> :> [nominal |-> <<>>, manual |-> <<>>])
    @@ (<<88, 51>> :> [nominal |-> <<116, 51>>, manual |-> ({25, 32} :> <<1083, 1102, 1076, 1103, 1084>>)])
    @@ (<<88, 52>> :> [nominal |-> <<97, 98, 99, 100, 101, 102, 103, 104, 105, 233>>, manual |-> <<>>])

Proj(r) == [k |-> r.kind, name |-> r.name, form |-> SetToSortSeq(r.form, <), off |-> r.off, s |-> r.s, f |-> r.f]
TextOK(ev) ==
  LET s == ev.cps  refs == Extract(s) IN
  Unterminated(s, 1) \/
  /\ Len(ev.refs) = Len(refs)
  /\ \A i \in DOMAIN refs : [k |-> ev.refs[i].k, name |-> ev.refs[i].name, form |-> ev.refs[i].form, off |-> ev.refs[i].off,
                             s |-> ev.refs[i].s, f |-> ev.refs[i].f] = Proj(refs[i])
  /\ \A i \in DOMAIN refs : ev.refs[i].spell = Spelling(refs[i])
  /\ LET res == [i \in DOMAIN refs |-> ev.refs[i].res] IN
       /\ ev.resolved = ResolvedFrom(s, refs, res, 1)                 \* everything else byte-for-byte intact
       /\ \A i \in DOMAIN refs : /\ [s |-> ev.refs[i].rs, f |-> ev.refs[i].rf] = ResolvedRange(refs, res, i)
                                 /\ res[i] # <<>>
                                 /\ ResolutionKind(refs, i, Ctx) = "form" => res[i] = ResolutionText(refs, i, Ctx)
  /\ ev.nrefs = Len(refs)                     \* the manager holds exactly this text's references (it is reused across texts)
  /\ ev.back = Canonical(s, refs, 1)
  /\ ToSet(ev.referals) = Referals(s)
R2(q) == [i \in DOMAIN q |-> [s |-> q[i].s, f |-> q[i].f]]
MgrOK(ev) ==
  /\ ev.aligned
  /\ IF ev.op = "Insert"
     THEN IF ev.ok THEN R2(ev.after) = InsertRange(R2(ev.before), ev.a, ev.len) /\ InsertAllowed(R2(ev.before), ev.a)
                   ELSE ev.after = ev.before
     ELSE IF ev.ok THEN EraseContract(R2(ev.before), [s |-> ev.rs, f |-> ev.rf], R2(ev.after))
                   ELSE ev.after = ev.before
PropC17 == CASE seen.e = "Text" -> TextOK(seen) [] seen.e = "Mgr" -> MgrOK(seen)
             [] seen.e = "Fault" -> FALSE [] OTHER -> TRUE
TraceAccepted == TLCGet("stats").diameter - 1 = Len(TraceLog)
=============================================================================
