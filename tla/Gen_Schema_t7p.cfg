CONSTANTS ConstIds = {"C1", "C2", "C3"}
MaxLen = 7
MaxCst = 3
Preset = "proj"
SPECIFICATION Spec
INVARIANT SchemaInv
CONSTRAINT Emit
