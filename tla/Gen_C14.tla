------------------------------- MODULE Gen_C14 ------------------------------
(* Spec -> code: every history of at most MaxLen mutator calls over Ids,   *)
(* with the answer the specification predicts for every public query on    *)
(* the final graph (every prefix of a history is itself an emitted          *)
(* history).  `hist` makes each history a distinct state on purpose.        *)
EXTENDS CGraph, TLC, Json

CONSTANTS MaxLen, WithUpdatable

VARIABLE hist
vars == <<nodes, edges, invalid, hist>>

S2Q(S) == SetToSeq(S)
Op(o, a, b, s) == [op |-> o, a |-> a, b |-> b, s |-> S2Q(s)]

Obs == [nodes   |-> S2Q(nodes),
        edges   |-> S2Q(edges),
        nEdges  |-> Cardinality(edges),
        invalid |-> invalid,
        hasLoop |-> HasLoop(nodes, edges),
        loops   |-> S2Q({S2Q(g) : g \in LoopGroups(nodes, edges)}),
        inputs  |-> S2Q({[n |-> n, v |-> S2Q(InputsFor(nodes, edges, n))] : n \in Ids}),
        reach   |-> S2Q({<<a, b>> \in Ids \X Ids : a # b /\ a \in nodes /\ b \in nodes /\ PathPlus(edges, a, b)}),
        closure |-> S2Q({[x |-> S2Q(X), out |-> S2Q(ExpandOutputs(nodes, edges, X)),
                          inn |-> S2Q(ExpandInputs(nodes, edges, X))] : X \in SUBSET Ids})]

Init == GInit /\ hist = <<>>

Step(A, rec) == A /\ hist' = Append(hist, rec)

Next == /\ Len(hist) < MaxLen
        /\ \/ \E i \in Ids : \/ Step(AddItem(i), Op("AddItem", i, 0, {}))
                             \/ Step(EraseItem(i), Op("EraseItem", i, 0, {}))
           \/ \E i, j \in Ids : Step(AddConnection(i, j), Op("AddConnection", i, j, {}))
           \/ \E i \in Ids, S \in SUBSET Ids : Step(SetItemInputs(i, S), Op("SetItemInputs", i, 0, S))
           \/ Step(Clear, Op("Clear", 0, 0, {}))
           \/ /\ WithUpdatable
              /\ \/ Step(Invalidate, Op("Invalidate", 0, 0, {}))
                 \/ Step(SetValid, Op("SetValid", 0, 0, {}))
                 \/ \E i \in Ids, S \in SUBSET Ids : Step(UpdateFor(i, S), Op("UpdateFor", i, 0, S))

Spec == Init /\ [][Next]_vars

Emit == PrintT(<<"CASE", ToJson([hist |-> hist, obs |-> Obs])>>)
=============================================================================
