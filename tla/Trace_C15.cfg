SPECIFICATION TSpec
INVARIANT PropC15
POSTCONDITION TraceAccepted
CHECK_DEADLOCK FALSE
