CONSTANTS ConstIds = {"C1", "C2", "C3"}
MaxLen = 4
MaxCst = 4
Preset = "ops"
SPECIFICATION Spec
INVARIANT SchemaInv
INVARIANT BasisTheorem
INVARIANT MaxPartTheorem
INVARIANT AnalysisTheorem
CONSTRAINT EmitOps
