CONSTANTS Ids = {1, 2, 3}
MaxLen = 3
WithUpdatable = TRUE
SPECIFICATION Spec
CONSTRAINT Emit
