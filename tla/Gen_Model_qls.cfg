CONSTANTS ConstIds = {"C1", "C2", "C3"}
MaxLen = 4
MaxCst = 6
Preset = "lates"
SPECIFICATION Spec
CONSTRAINT Emit
