CONSTANTS Ids = {1, 2, 3}
MaxLen = 3
WithUpdatable = FALSE
SPECIFICATION Spec
CONSTRAINT Emit
