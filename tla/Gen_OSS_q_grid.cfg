CONSTANTS MaxLen = 4
MaxPict = 4
Preset = "grid"
SPECIFICATION Spec
INVARIANT StructureInv
INVARIANT FreshInv
CONSTRAINT Emit
