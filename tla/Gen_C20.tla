------------------------------- MODULE Gen_C20 ------------------------------
(* Spec -> code for C20: every string of <= MaxLen code points over Alphabet with the     *)
(* predicted result of every string utility, and every list of <= 3 ranges in the window  *)
(* with the predicted interval relations (pairs), intersection and merge.                  *)
EXTENDS Strings, TLC, Json
CONSTANTS Hi, Alphabet, MaxLen, MaxList
Lo == -1
VARIABLES mode, str, lst
vars == <<mode, str, lst>>
Ranges == {r \in [s : Lo..Hi, f : Lo..Hi] : r.s <= r.f}

Init == \/ mode = "str" /\ str = <<>> /\ lst = <<>>
        \/ mode = "rng" /\ str = <<>> /\ lst = <<>>
Next == \/ mode = "str" /\ Len(str) < MaxLen /\ \E c \in Alphabet : str' = Append(str, c) /\ UNCHANGED <<mode, lst>>
        \/ mode = "rng" /\ Len(lst) < MaxList /\ \E r \in Ranges : lst' = Append(lst, r) /\ UNCHANGED <<mode, str>>
Spec == Init /\ [][Next]_vars

OptR(x) == IF x = None THEN [none |-> TRUE, s |-> 0, f |-> 0] ELSE [none |-> FALSE, s |-> x.s, f |-> x.f]
StrCase ==
  [kind |-> "str", cps |-> str, size |-> SizeInCodePoints(str), bytes |-> ByteLen(str), iter |-> Iteration(str),
   substr |-> SetToSeq({[a |-> x, b |-> y, r |-> Substr(str, x, y)] : <<x, y>> \in {p \in (0..Len(str) + 2) \X (0..Len(str) + 2) : p[1] <= p[2]}}),
   split44 |-> SplitBy(str, 44), split45 |-> SplitBy(str, 45), trim |-> Trim(str), isint |-> IsInteger(str)]
PairRel(a, b) ==
  [before |-> Before(a, b), after |-> After(a, b), meets |-> Meets(a, b), starts |-> Starts(a, b),
   finishes |-> Finishes(a, b), during |-> During(a, b), equal |-> Equal(a, b),
   proper |-> Proper(a) /\ Proper(b),
   overlaps |-> Overlaps(a, b), contains |-> ContainsRng(a, b), shares |-> SharesBorder(a, b),
   overlapsImpl |-> OverlapsImpl(a, b), containsImpl |-> ContainsRngImpl(a, b),
   containsPos |-> [p \in 1..(Hi - Lo + 3) |-> ContainsPos(a, p + Lo - 2)],
   isect |-> OptR(Intersect(a, b)), lenA |-> Length(a)]
RngCase ==
  [kind |-> "rng", list |-> lst, merge |-> Merge(lst),
   rel |-> IF Len(lst) = 2 THEN <<PairRel(lst[1], lst[2])>> ELSE <<>>]
Emit == PrintT(<<"CASE", ToJson(IF mode = "str" THEN StrCase ELSE RngCase)>>)
=============================================================================
