CONSTANTS ConstIds = {"C1", "C2", "C3"}
SPECIFICATION TSpec
INVARIANT PropEquate
INVARIANT PropSynth
INVARIANT PropSchema
POSTCONDITION TraceAccepted
CHECK_DEADLOCK FALSE
