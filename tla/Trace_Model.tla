----------------------------- MODULE Trace_Model ----------------------------
(* Code -> spec for C11: long random histories recorded from a real RSModel (schema edits,      *)
(* interpretation changes, structure data, single and full calculations) must be behaviours of  *)
(* Model.tla, and after every call each constituent that shows a calculated value shows Fresh's *)
(* value (what recalculating everything from the current content gives); aliases, verdicts and  *)
(* base-set keys are compared as content conformance.                                           *)
EXTENDS Model, Json, IOUtils
VARIABLES l, seen
TraceLog == ndJsonDeserialize(IOEnv.TRACE)
tvars == <<order, cst, trk, keys, sdata, l, seen>>
NoObs == [has |-> FALSE, items |-> <<>>]
TEv == TraceLog[l]
TInit == MInit /\ l = 1 /\ seen = NoObs
DefOf(t) == IF t.id = "NODEF" THEN NoDef ELSE t
PairSet(q) == {<<q[i][1], q[i][2]>> : i \in DOMAIN q}
TNext ==
  /\ l <= Len(TraceLog)
  /\ l' = l + 1
  /\ seen' = (IF "items" \in DOMAIN TEv THEN [has |-> TRUE, items |-> TEv.items] ELSE NoObs)
  /\ CASE TEv.e = "Reset" -> order' = <<>> /\ cst' = <<>> /\ trk' = <<>> /\ keys' = <<>> /\ sdata' = <<>>
       [] TEv.e = "Emplace" -> MEmplace(TEv.k, DefOf(TEv.def), TEv.fresh)
       [] TEv.e = "Erase" -> MErase(TEv.u)
       [] TEv.e = "SetExpression" -> MSetExpression(TEv.u, DefOf(TEv.def))
       [] TEv.e = "AddBasicElement" -> AddBasicElement(TEv.u)
       [] TEv.e = "SetBasicText" -> SetBasicText(TEv.u, ToSet(TEv.ks))
       [] TEv.e = "SetStructureData" -> SetStructureData(TEv.u, PairSet(TEv.data))
       [] TEv.e = "ResetDataFor" -> ResetDataFor(TEv.u)
       [] TEv.e = "Calculate" -> Calculate(TEv.u)
       [] TEv.e = "RecalculateAll" -> RecalculateAll
       [] TEv.e = "Fault" -> FALSE
TSpec == TInit /\ [][TNext]_tvars

\* a logged value (sets as {"s": [...]}, tuples as {"t": [...]}) as a value of typification t
RECURSIVE DecV(_, _)
DecV(j, t) == CASE t.k = "bool" -> {DecV(j.s[i], t.c[1]) : i \in DOMAIN j.s}
                [] t.k = "tuple" -> [i \in 1..Len(t.c) |-> DecV(j.t[i], t.c[i])]
                [] OTHER -> j
PropModel ==
  seen.has =>
    LET an == AnalysisNow  fr == Fresh IN
    /\ Len(seen.items) = Len(order)
    /\ \A i \in DOMAIN order :
         LET u == order[i]  c == cst[u]  it == seen.items[i]  r == an[c.alias] IN
         /\ it.uid = u /\ it.alias = c.alias /\ it.ok = r.ok
         /\ (u \in DOMAIN keys) => ToSet(it.keys) = keys[u]
         \* C11: whoever shows a calculated value shows the value a full recalculation gives
         /\ (it.shows /\ Calculable(u)) =>
              /\ c.alias \in DOMAIN fr
              /\ IF r.type.k = "logic" THEN it.statement = fr[c.alias] ELSE DecV(it.value, r.type) = fr[c.alias]
TraceAccepted == TLCGet("stats").diameter - 1 = Len(TraceLog)
=============================================================================
