------------------------------ MODULE Trace_C15 -----------------------------
(* Code -> spec for C15: queries on randomly constructed values (larger universes, lazy sets  *)
(* around the 100-element cache limit) logged by the real library; TLC recomputes every answer *)
(* from the denotations of the construction recipes.                                            *)
EXTENDS RSValues, TLC, Json, IOUtils
VARIABLES l, seen
TraceLog == ndJsonDeserialize(IOEnv.TRACE)
NoObs == [e |-> "none"]
TInit == l = 1 /\ seen = NoObs
TNext == l <= Len(TraceLog) /\ l' = l + 1 /\ seen' = TraceLog[l]
TSpec == TInit /\ [][TNext]_<<l, seen>>

RECURSIVE Den(_)
Den(r) == CASE r.k = "val" -> r.n
            [] r.k = "tuple" -> [i \in 1..Len(r.c) |-> Den(r.c[i])]
            [] r.k = "set" -> {Den(r.c[i]) : i \in 1..Len(r.c)}
            [] r.k = "single" -> {Den(r.c[1])}
            [] r.k = "pow" -> SUBSET Den(r.c[1])
            [] r.k = "prod" -> IF Len(r.c) = 2 THEN Den(r.c[1]) \X Den(r.c[2]) ELSE Den(r.c[1]) \X Den(r.c[2]) \X Den(r.c[3])

PairOK(ev) ==
  LET x == Den(ev.a)  y == Den(ev.b)  ty == ev.a.ty IN
  /\ ev.eq = (x = y) /\ ev.lt = Less(x, y, ty)
  /\ ev.sub = (x \subseteq y) /\ ev.card = Cardinality(x)
  /\ ev.items = Enc(x, ty)                        \* iteration: each element once, ascending
  /\ ev.un = Enc(x \cup y, ty) /\ ev.inter = Enc(x \cap y, ty)
  /\ ev.diff = Enc(x \ y, ty) /\ ev.sym = Enc((x \ y) \cup (y \ x), ty)
  /\ ev.memb = (LET q == SortBy(y, ty.c[1]) IN [i \in 1..Len(q) |-> q[i] \in x])
  /\ ev.copyIntact
PropC15 == CASE seen.e = "Pair" -> PairOK(seen) [] seen.e = "Fault" -> FALSE   \* the recorded execution crashed / threw / hung
             [] OTHER -> TRUE
TraceAccepted == TLCGet("stats").diameter - 1 = Len(TraceLog)
=============================================================================
