------------------------------- MODULE RSTypes ------------------------------
(***************************************************************************)
(* Typifications of RSLang as uniform records [k, id, c]:                  *)
(*   base set / constant set   [k |-> "base", id |-> "X1", c |-> <<>>]     *)
(*   integer                   [k |-> "Z"]      any-type R0  [k |-> "any"] *)
(*   power set                 [k |-> "bool", c |-> <<t>>]                 *)
(*   Cartesian product         [k |-> "tuple", c |-> <<t1, ..., tn>>] n>=2 *)
(*   LOGIC                     [k |-> "logic"]  radical  [k |-> "rad", id] *)
(* One record shape everywhere so that TLC never compares unlike values.   *)
(***************************************************************************)
EXTENDS Integers, Sequences, FiniteSets

TZ        == [k |-> "Z",     id |-> "",  c |-> <<>>]
TAny      == [k |-> "any",   id |-> "",  c |-> <<>>]
TLogic    == [k |-> "logic", id |-> "",  c |-> <<>>]
TBase(n)  == [k |-> "base",  id |-> n,   c |-> <<>>]
TRad(n)   == [k |-> "rad",   id |-> n,   c |-> <<>>]
TBool(t)  == [k |-> "bool",  id |-> "",  c |-> <<t>>]
TTuple(s) == IF Len(s) = 1 THEN s[1] ELSE [k |-> "tuple", id |-> "", c |-> s]
Bad(why)  == [k |-> "bad",   id |-> why, c |-> <<>>]
IsBad(t)  == t.k = "bad"

IsBasicT(t) == t.k \in {"base", "Z", "rad"}

\* the documented spelling, ASCII flavour: B for the power set, * for the product
RECURSIVE TypeStr(_)
TypeStr(t) ==
  CASE t.k = "Z" -> "Z"
    [] t.k = "any" -> "R0"
    [] t.k = "logic" -> "LOGIC"
    [] t.k \in {"base", "rad"} -> t.id
    [] t.k = "bool" -> IF t.c[1].k = "bool" THEN "B" \o TypeStr(t.c[1]) ELSE "B(" \o TypeStr(t.c[1]) \o ")"
    [] t.k = "tuple" ->
         LET RECURSIVE J(_)
             J(i) == LET p == IF t.c[i].k = "tuple" THEN "(" \o TypeStr(t.c[i]) \o ")" ELSE TypeStr(t.c[i])
                     IN IF i = Len(t.c) THEN p ELSE p \o "*" \o J(i + 1)
         IN J(1)
    [] OTHER -> "BAD"

\* number of basic and collection nodes of a typification (what an empty set occupies in the compact encoding)
RECURSIVE Zeros(_)
Zeros(t) == CASE t.k = "bool" -> 1 + Zeros(t.c[1])
              [] t.k = "tuple" -> LET RECURSIVE S(_) S(i) == IF i > Len(t.c) THEN 0 ELSE Zeros(t.c[i]) + S(i + 1) IN S(1)
              [] OTHER -> 1
=============================================================================
