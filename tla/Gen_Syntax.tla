------------------------------- MODULE Gen_Syntax ---------------------------
(***************************************************************************)
(* Spec -> code generator for the concrete syntax (C06 parser, C05         *)
(* printer): trees need not be well-typed, only grammatical.               *)
(*  "ops"   every tree with up to 3 binary set/arithmetic operators (all 5 *)
(*          shapes) over leaves, incl. n-ary products next to nested ones  *)
(*  "logic" the same for the four connectives, with negations and          *)
(*          quantifiers in every operand / body position                   *)
(*  "ctor"  every constructor with a binary operand in every position,     *)
(*          every binder form, Greek local names (transliteration)         *)
(* Each case carries the two renderings of RSSyntax (min / max parens).    *)
(***************************************************************************)
EXTENDS RSTyping, RSSyntax, SequencesExt, Json
VARIABLES fam, c
vars == <<fam, c>>

X(n) == Glob("X" \o ToString(n))
BinOps == {"PLUS", "MINUS", "MULTIPLY", "DECART", "UNION", "INTERSECTION", "SET_MINUS", "SYMMINUS"}
Bin(o, a, b) == Node(o, <<a, b>>)
\* the five binary-tree shapes with three operators over the leaves X1..X4, plus the smaller ones
Shapes3 == {Bin(o1, Bin(o2, Bin(o3, X(1), X(2)), X(3)), X(4)) : o1 \in BinOps, o2 \in BinOps, o3 \in BinOps}
      \cup {Bin(o1, Bin(o2, X(1), Bin(o3, X(2), X(3))), X(4)) : o1 \in BinOps, o2 \in BinOps, o3 \in BinOps}
      \cup {Bin(o1, Bin(o2, X(1), X(2)), Bin(o3, X(3), X(4))) : o1 \in BinOps, o2 \in BinOps, o3 \in BinOps}
      \cup {Bin(o1, X(1), Bin(o2, Bin(o3, X(2), X(3)), X(4))) : o1 \in BinOps, o2 \in BinOps, o3 \in BinOps}
      \cup {Bin(o1, X(1), Bin(o2, X(2), Bin(o3, X(3), X(4)))) : o1 \in BinOps, o2 \in BinOps, o3 \in BinOps}
Shapes2 == {Bin(o1, Bin(o2, X(1), X(2)), X(3)) : o1 \in BinOps, o2 \in BinOps}
      \cup {Bin(o1, X(1), Bin(o2, X(2), X(3))) : o1 \in BinOps, o2 \in BinOps}
NaryProducts == {Node("DECART", <<X(1), X(2), X(3)>>), Node("DECART", <<X(1), X(2), X(3), X(4)>>)}
      \cup {Node("DECART", <<Bin(o, X(1), X(2)), X(3), X(4)>>) : o \in BinOps}
      \cup {Node("DECART", <<X(1), Bin(o, X(2), X(3)), X(4)>>) : o \in BinOps}
      \cup {Node("DECART", <<X(1), X(2), Bin(o, X(3), X(4))>>) : o \in BinOps}
      \cup {Bin(o, Node("DECART", <<X(1), X(2), X(3)>>), X(4)) : o \in BinOps}
      \cup {Bin(o, X(4), Node("DECART", <<X(1), X(2), X(3)>>)) : o \in BinOps}
OpTrees == Shapes3 \cup Shapes2 \cup NaryProducts \cup {Bin(o, X(1), X(2)) : o \in BinOps}

La == Loc("a")  Lb == Loc("b")
P(n) == Node("EQUAL", <<X(n), X(n)>>)
Conn == {"AND", "OR", "IMPLICATION", "EQUIVALENT"}
Q(body) == Node("FORALL", <<La, X(1), body>>)
Neg(x) == Node("NOT", <<x>>)
LShapes3 == {Bin(o1, Bin(o2, Bin(o3, P(1), P(2)), P(3)), P(4)) : o1 \in Conn, o2 \in Conn, o3 \in Conn}
       \cup {Bin(o1, Bin(o2, P(1), Bin(o3, P(2), P(3))), P(4)) : o1 \in Conn, o2 \in Conn, o3 \in Conn}
       \cup {Bin(o1, Bin(o2, P(1), P(2)), Bin(o3, P(3), P(4))) : o1 \in Conn, o2 \in Conn, o3 \in Conn}
       \cup {Bin(o1, P(1), Bin(o2, Bin(o3, P(2), P(3)), P(4))) : o1 \in Conn, o2 \in Conn, o3 \in Conn}
       \cup {Bin(o1, P(1), Bin(o2, P(2), Bin(o3, P(3), P(4)))) : o1 \in Conn, o2 \in Conn, o3 \in Conn}
LMix == {Bin(o1, Neg(Bin(o2, P(1), P(2))), P(3)) : o1 \in Conn, o2 \in Conn}
   \cup {Bin(o1, P(1), Neg(Bin(o2, P(2), P(3)))) : o1 \in Conn, o2 \in Conn}
   \cup {Neg(Neg(Bin(o1, P(1), P(2)))) : o1 \in Conn} \cup {Neg(P(1)), Neg(Neg(P(1))), Neg(Q(P(1))), Q(Neg(P(1))), Q(Q(P(1)))}
   \cup {Bin(o1, Q(Bin(o2, P(1), P(2))), P(3)) : o1 \in Conn, o2 \in Conn}
   \cup {Bin(o1, P(1), Q(Bin(o2, P(2), P(3)))) : o1 \in Conn, o2 \in Conn}
   \cup {Bin(o1, Q(P(1)), Bin(o2, P(2), Q(P(3)))) : o1 \in Conn, o2 \in Conn}
   \cup {Q(Bin(o1, Bin(o2, P(1), P(2)), P(3))) : o1 \in Conn, o2 \in Conn}
   \cup {Node("EXISTS", <<Node("ENUMDECL", <<La, Lb>>), X(1), Bin(o1, P(1), P(2))>>) : o1 \in Conn}
   \cup {Node("EXISTS", <<Node("TUPLEDECL", <<La, Node("TUPLEDECL", <<Lb, Loc("c")>>)>>), X(1), P(1)>>)}
   \cup {Bin(o1, Call("P1", <<X(1)>>), Neg(Call("P1", <<X(2), X(3)>>))) : o1 \in Conn}
PredIds == {"IN", "NOTIN", "SUBSET", "SUBSET_OR_EQ", "NOTSUBSET", "EQUAL", "NOTEQUAL", "GREATER", "LESSER", "GREATER_OR_EQ", "LESSER_OR_EQ"}
PredTrees == {Bin(p, Bin(o, X(1), X(2)), Bin(o, X(3), X(4))) : p \in PredIds, o \in BinOps}
        \cup {Bin(c1, Bin(p, X(1), X(2)), Bin(p, X(3), IntLit(1))) : p \in PredIds, c1 \in Conn}
LogicTrees == LShapes3 \cup LMix \cup PredTrees

\* constructors with a binary operand B in every setexpr position and a binary formula F in every logic position
B == Bin("UNION", X(1), X(2))
F == Bin("AND", P(1), P(2))
Greek == {"%g" \o (IF i < 10 THEN "0" ELSE "") \o ToString(i) : i \in 1..25}
CtorTrees ==
  {Node(o, <<B>>) : o \in {"CARD", "DEBOOL", "BOOL", "REDUCE", "BOOLEAN"}}
  \cup {Node("BOOLEAN", <<Node("BOOLEAN", <<X(1)>>)>>), Node("BOOLEAN", <<Node("BOOLEAN", <<Node("BOOLEAN", <<B>>)>>)>>)}
  \cup {Idx(o, ix, <<B>>) : o \in {"BIGPR", "SMALLPR"}, ix \in {<<1>>, <<2, 1>>, <<1, 2, 3>>, <<10, 11>>}}
  \cup {Node("TUPLE", <<B, X(3)>>), Node("TUPLE", <<X(3), B, B>>), Node("ENUM", <<B>>), Node("ENUM", <<X(3), B>>),
        Node("TUPLE", <<Node("TUPLE", <<X(1), X(2)>>), X(3)>>), Node("ENUM", <<Node("ENUM", <<X(1)>>), Empty>>)}
  \cup {Call("F1", <<B>>), Call("F1", <<X(1), B>>), Call("F2", <<Call("F1", <<B>>), IntLit(12)>>), Call("F2", <<X(1)>>),
        Node("EQUAL", <<Call("F2", <<X(1)>>), Call("F2", <<X(1)>>)>>)}
  \cup {Idx("FILTER", <<1>>, <<B, B>>), Idx("FILTER", <<1, 2>>, <<X(1), B, X(3)>>), Idx("FILTER", <<2, 1>>, <<B, X(3)>>)}
  \cup {Node("DECLARATIVE", <<La, B, F>>), Node("DECLARATIVE", <<Node("TUPLEDECL", <<La, Lb>>), B, P(1)>>),
        Node("DECLARATIVE", <<La, X(1), Neg(F)>>), Node("DECLARATIVE", <<La, X(1), Q(F)>>)}
  \cup {Node("REC_SHORT", <<La, B, B>>), Node("REC_FULL", <<La, B, F, B>>), Node("REC_SHORT", <<Node("TUPLEDECL", <<La, Lb>>), B, Node("TUPLE", <<La, Lb>>)>>),
        Node("REC_FULL", <<La, X(1), P(1), La>>)}
  \cup {Node("IMPERATIVE", <<B, Node("ITERATE", <<La, B>>)>>),
        Node("IMPERATIVE", <<Node("TUPLE", <<La, Lb>>), Node("ITERATE", <<La, X(1)>>), Node("ASSIGN", <<Lb, B>>), F, Neg(P(1))>>),
        Node("IMPERATIVE", <<La, Node("ITERATE", <<Node("TUPLEDECL", <<La, Lb>>), X(1)>>), Q(F)>>)}
  \cup {Bin(o, Node("BOOLEAN", <<X(1)>>), Node("CARD", <<X(2)>>)) : o \in BinOps}
  \cup {Bin(o, IntLit(0), Node("INTSET", <<>>)) : o \in BinOps}
  \cup {Node("FORALL", <<Loc(g), X(1), Node("EQUAL", <<Loc(g), Loc(g \o "1")>>)>>) : g \in Greek}
  \cup {Node("DECLARATIVE", <<Loc("_x"), X(1), Node("IN", <<Loc("_x"), Loc("x_1y")>>)>>), Rad("R1"), Node("BOOLEAN", <<Rad("R12")>>)}

Init == \/ fam = "ops" /\ c \in OpTrees
        \/ fam = "logic" /\ c \in LogicTrees
        \/ fam = "ctor" /\ c \in CtorTrees
Next == fam = "none" /\ UNCHANGED vars
Spec == Init /\ [][Next]_vars
Emit == PrintT(<<"CASE", ToJson([e |-> c, ty |-> "SKIP", vals |-> <<>>, kvals |-> <<>>, r0 |-> Render(c, 0), r1 |-> Render(c, 1), r2 |-> Render(c, 2)])>>)
=============================================================================
