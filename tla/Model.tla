------------------------------- MODULE Model --------------------------------
(***************************************************************************)
(* An interpreted model (ccl::semantic::RSModel): the schema content of    *)
(* Schema.tla plus the interpretation data a user supplies.  C11 (and the  *)
(* model half of C10).                                                     *)
(*   keys  : identifier of a base / constant set -> set of element keys    *)
(*   sdata : identifier of a structure -> its data (a set value)           *)
(* The calculated values and "was calculated" flags are CACHES of the      *)
(* implementation and are deliberately not part of this state: the         *)
(* property is stated against Fresh, what recalculating everything from    *)
(* the current content would show.  A mutator may reset any superset of    *)
(* what became stale; it may never leave a stale value visible.            *)
(***************************************************************************)
EXTENDS Schema, RSEval

VARIABLES keys, sdata
mvars == <<order, cst, trk, keys, sdata>>

IsBaseKind(k) == k \in {"base", "constant"}
BaseIds == {u \in Ids : IsBaseKind(cst[u].kind)}
StructIds == {u \in Ids : cst[u].kind = "structured"}

\* from-scratch typing context of the current content
AnalysisNow == Analysis(cst)
TypeOfCst(u) == AnalysisNow[cst[u].alias]
AliasKeys == [a \in {cst[u].alias : u \in BaseIds} |-> keys[CHOOSE u \in BaseIds : cst[u].alias = a]]

RECURSIVE ValidIn(_, _, _)
\* a stored value mentions only existing elements of the base sets
ValidIn(v, t, K) ==
  CASE t.k = "base" -> IF t.id \in DOMAIN K THEN v \in K[t.id] ELSE TRUE
    [] t.k = "tuple" -> \A i \in 1..Len(t.c) : ValidIn(v[i], t.c[i], K)
    [] t.k = "bool" -> \A x \in v : ValidIn(x, t.c[1], K)
    [] OTHER -> TRUE
\* pruning of structure data after the base sets changed: keep the elements that are still valid
Pruned(u, K) == LET r == Analysis(cst)[cst[u].alias] IN
                IF ~r.ok \/ r.type.k # "bool" THEN sdata[u] ELSE {x \in sdata[u] : ValidIn(x, r.type.c[1], K)}

\* ---- Fresh: what recalculating everything would show (least fixpoint over the dependency order)
NoVal == [x \in {} |-> 0]
FuncBodies == [a \in {cst[u].alias : u \in {x \in Ids : cst[x].kind \in {"function", "predicate"} /\ cst[x].def # NoDef /\ cst[x].def.id = "FUNCDEF"}} |->
                 LET u == CHOOSE x \in Ids : cst[x].alias = a
                 IN [args |-> [i \in 1..Len(cst[u].def.ch[1].ch) |-> cst[u].def.ch[1].ch[i].ch[1].s], body |-> cst[u].def.ch[2]]]
Calculable(u) == cst[u].kind \in {"term", "axiom", "theorem"}
RECURSIVE DataNames(_)
DataNames(e) == {n \in Mentions(e) : n \notin DOMAIN FuncBodies} \cup UNION {DataNames(FuncBodies[f].body) : f \in Mentions(e) \cap DOMAIN FuncBodies}
RECURSIVE FixI(_, _)
StepI(I) ==
  LET ready == {u \in Ids : Calculable(u) /\ AnalysisNow[cst[u].alias].ok /\ cst[u].alias \notin DOMAIN I
                            /\ DataNames(cst[u].def) \subseteq DOMAIN I /\ Eval(cst[u].def, I, FuncBodies, NoVal).ok}
  IN [a \in DOMAIN I \cup {cst[u].alias : u \in ready} |->
        IF a \in DOMAIN I THEN I[a] ELSE Eval(cst[CHOOSE u \in ready : cst[u].alias = a].def, I, FuncBodies, NoVal).v]
FixI(I, k) == IF k = 0 THEN I ELSE LET J == StepI(I) IN IF J = I THEN I ELSE FixI(J, k - 1)
InputData == [a \in {cst[u].alias : u \in BaseIds \cup {x \in StructIds : AnalysisNow[cst[x].alias].ok}} |->
                LET u == CHOOSE x \in Ids : cst[x].alias = a IN IF u \in BaseIds THEN keys[u] ELSE sdata[u]]
Fresh == FixI(InputData, Cardinality(Ids) + 1)

\* ---- actions on the data (content level)
MInit == SInit /\ keys = <<>> /\ sdata = <<>>
NextKey(K) == CHOOSE k \in 1..(Cardinality(K) + 8) : k > Cardinality(K) /\ k \notin K /\ \A j \in (Cardinality(K) + 1)..(k - 1) : j \in K
PruneAll(newKeys) ==     \* newKeys : identifier -> key set
  LET K == [a \in {cst[u].alias : u \in BaseIds} |-> newKeys[CHOOSE u \in BaseIds : cst[u].alias = a]]
  IN sdata' = [u \in DOMAIN sdata |-> Pruned(u, K)]

AddBasicElement(u) ==
  IF u \in BaseIds
  THEN /\ keys' = [keys EXCEPT ![u] = keys[u] \cup {NextKey(keys[u])}]
       /\ PruneAll(keys') /\ UNCHANGED svars
  ELSE UNCHANGED mvars
SetBasicText(u, K) ==
  IF u \in BaseIds /\ K # keys[u]
  THEN keys' = [keys EXCEPT ![u] = K] /\ PruneAll(keys') /\ UNCHANGED svars
  ELSE UNCHANGED mvars
\* data is accepted only for a well-typed structure and only when it mentions existing elements
SetStructureData(u, v) ==
  IF u \in StructIds /\ TypeOfCst(u).ok /\ TypeOfCst(u).type.k = "bool" /\ v # sdata[u]
     /\ \A x \in v : ValidIn(x, TypeOfCst(u).type.c[1], AliasKeys)
  THEN sdata' = [sdata EXCEPT ![u] = v] /\ UNCHANGED <<order, cst, trk, keys>>
  ELSE UNCHANGED mvars
ResetDataFor(u) ==
  IF u \in BaseIds THEN keys' = [keys EXCEPT ![u] = {}] /\ PruneAll(keys') /\ UNCHANGED svars
  ELSE IF u \in StructIds THEN sdata' = [sdata EXCEPT ![u] = {}] /\ UNCHANGED <<order, cst, trk, keys>>
  ELSE UNCHANGED mvars
\* calculation never changes the content
Calculate(u) == UNCHANGED mvars
RecalculateAll == UNCHANGED mvars

\* schema edits lifted to the model: a new base set starts empty, a new structure starts with the empty set
MEmplace(k, d, fresh) ==
  /\ Emplace(k, d, fresh)
  /\ keys' = IF IsBaseKind(k) THEN (fresh :> {}) @@ keys ELSE keys
  /\ sdata' = IF k = "structured" THEN (fresh :> {}) @@ sdata ELSE sdata
\* a structure over the erased constituent is no longer correct: its data is dropped (it could neither be checked nor saved)
MErase(u) ==
  /\ Erase(u)
  /\ keys' = [x \in DOMAIN keys \ {u} |-> keys[x]]
  /\ sdata' = IF u \in Ids /\ u \notin DOMAIN trk
               THEN [x \in DOMAIN sdata \ {u} |-> IF cst[u].alias \in DefMentions(cst[x]) THEN {} ELSE sdata[x]]
               ELSE sdata
MSetExpression(u, d) ==
  /\ SetExpression(u, d)
  /\ keys' = keys
  /\ sdata' = IF u \in StructIds /\ cst[u].def # d THEN [sdata EXCEPT ![u] = {}] ELSE sdata   \* a re-defined structure loses its data
=============================================================================
