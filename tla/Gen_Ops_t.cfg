CONSTANTS ConstIds = {"C1", "C2", "C3"}
MaxLen = 5
MaxCst = 5
Preset = "ops"
SPECIFICATION Spec
INVARIANT SchemaInv
INVARIANT BasisTheorem
INVARIANT MaxPartTheorem
INVARIANT AnalysisTheorem
CONSTRAINT EmitOps
