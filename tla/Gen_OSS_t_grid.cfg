CONSTANTS MaxLen = 5
MaxPict = 4
Preset = "grid"
SPECIFICATION Spec
INVARIANT StructureInv
INVARIANT FreshInv
CONSTRAINT Emit
