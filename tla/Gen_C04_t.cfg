CONSTANTS ConstIds = {"C1"}
MaxSeq = 3
SeqAlphabet = "full"
EditTrees = "all"
SPECIFICATION Spec4
CONSTRAINT Emit4
