CONSTANTS MaxLen = 5
MaxPict = 4
Preset = "empty"
SPECIFICATION Spec
INVARIANT StructureInv
INVARIANT FreshInv
CONSTRAINT Emit
