CONSTANTS ConstIds = {"C1", "C2", "C3"}
MaxLen = 3
MaxCst = 4
Preset = "kinds"
SPECIFICATION Spec
INVARIANT SchemaInv
CONSTRAINT Emit
