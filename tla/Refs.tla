------------------------------- MODULE Refs ---------------------------------
(***************************************************************************)
(* Text references of cclLang (Reference, RefsManager, ManagedText). C17.  *)
(* A text is a sequence of code points.  A reference occurrence is a       *)
(* balanced "@{ ... }"; its body is split into fields on '|'.              *)
(*   entity reference         @{Name|tags}      2-4 fields, first starts   *)
(*                                              with an ASCII letter       *)
(*   collaboration reference  @{offset|text}    exactly 2 fields, first an *)
(*                                              integer                    *)
(* Positions are code-point ranges [s, f) (0-based, half-open).            *)
(***************************************************************************)
EXTENDS Strings

AT == 64   LB == 123   RB == 125   BAR == 124   COMMA == 44   MINUS == 45

TagNames == <<
  <<78, 79, 85, 78>>,  \*  1 NOUN
  <<78, 80, 82, 79>>,  \*  2 NPRO
  <<73, 78, 70, 78>>,  \*  3 INFN
  <<86, 69, 82, 66>>,  \*  4 VERB
  <<65, 68, 74, 70>>,  \*  5 ADJF
  <<65, 68, 74, 83>>,  \*  6 ADJS
  <<80, 82, 84, 70>>,  \*  7 PRTF
  <<80, 82, 84, 83>>,  \*  8 PRTS
  <<65, 68, 86, 66>>,  \*  9 ADVB
  <<71, 82, 78, 68>>,  \* 10 GRND
  <<67, 79, 77, 80>>,  \* 11 COMP
  <<80, 82, 69, 68>>,  \* 12 PRED
  <<78, 85, 77, 82>>,  \* 13 NUMR
  <<67, 79, 78, 74>>,  \* 14 CONJ
  <<73, 78, 84, 74>>,  \* 15 INTJ
  <<80, 82, 67, 76>>,  \* 16 PRCL
  <<80, 82, 69, 80>>,  \* 17 PREP
  <<80, 78, 67, 84>>,  \* 18 PNCT
  <<112, 114, 101, 115>>,  \* 19 pres
  <<112, 97, 115, 116>>,  \* 20 past
  <<102, 117, 116, 114>>,  \* 21 futr
  <<49, 112, 101, 114>>,  \* 22 1per
  <<50, 112, 101, 114>>,  \* 23 2per
  <<51, 112, 101, 114>>,  \* 24 3per
  <<115, 105, 110, 103>>,  \* 25 sing
  <<112, 108, 117, 114>>,  \* 26 plur
  <<109, 97, 115, 99>>,  \* 27 masc
  <<102, 101, 109, 110>>,  \* 28 femn
  <<110, 101, 117, 116>>,  \* 29 neut
  <<110, 111, 109, 110>>,  \* 30 nomn
  <<103, 101, 110, 116>>,  \* 31 gent
  <<100, 97, 116, 118>>,  \* 32 datv
  <<97, 98, 108, 116>>,  \* 33 ablt
  <<97, 99, 99, 115>>,  \* 34 accs
  <<108, 111, 99, 116>>   \* 35 loct
>>

IsLetter(c) == (c >= 65 /\ c <= 90) \/ (c >= 97 /\ c <= 122)

\* ------------------------------------------------------------ scanning
RECURSIVE MatchBrace(_, _, _)
\* index of the '}' closing the '{' at position i (1-based), 0 if the braces never balance
MatchBrace(s, i, depth) ==
  IF i > Len(s) THEN 0
  ELSE LET d == IF s[i] = LB THEN depth + 1 ELSE IF s[i] = RB THEN depth - 1 ELSE depth
       IN IF d = 0 THEN i ELSE MatchBrace(s, i + 1, d)

RECURSIVE Candidates(_, _)
\* balanced "@{...}" occurrences from 1-based position i on, left to right, non-overlapping:
\* a marker starts at an '@' immediately followed by '{'; scanning resumes after the closing brace
Candidates(s, i) ==
  IF i >= Len(s) THEN <<>>
  ELSE IF s[i] = AT /\ s[i + 1] = LB THEN
         LET e == MatchBrace(s, i + 1, 0) IN
         IF e = 0 THEN <<>>                       \* unterminated marker: see Unterminated
         ELSE <<[s |-> i - 1, f |-> e]>> \o Candidates(s, e + 1)
       ELSE Candidates(s, i + 1)

\* texts with an unterminated marker: the statement does not say whether later/inner markers count
RECURSIVE Unterminated(_, _)
Unterminated(s, i) ==
  IF i >= Len(s) THEN FALSE
  ELSE IF s[i] = AT /\ s[i + 1] = LB THEN
         LET e == MatchBrace(s, i + 1, 0) IN IF e = 0 THEN TRUE ELSE Unterminated(s, e + 1)
       ELSE Unterminated(s, i + 1)

\* ------------------------------------------------------------ parsing one occurrence
TagIndex(w) == IF \E k \in DOMAIN TagNames : TagNames[k] = w THEN CHOOSE k \in DOMAIN TagNames : TagNames[k] = w ELSE 0
TagsOf(fields) == {TagIndex(Trim(fields[i])) : i \in DOMAIN fields} \ {0}

Digits2Int(d) == LET RECURSIVE V(_, _) V(i, acc) == IF i > Len(d) THEN acc ELSE V(i + 1, acc * 10 + (d[i] - 48)) IN V(1, 0)
IntValue(w) == IF Head(w) = MINUS THEN 0 - Digits2Int(Tail(w)) ELSE Digits2Int(w)
FitsInt16(w) == Len(w) <= 6 /\ IntValue(w) >= -32768 /\ IntValue(w) <= 32767

Invalid == [kind |-> "invalid", name |-> <<>>, form |-> {}, off |-> 0]
\* body = the text between "@{" and "}"
ParseBody(body) ==
  IF body = <<>> THEN Invalid
  ELSE
  LET fields == SplitBy(body, BAR)  n == Len(fields) IN
  IF n < 2 \/ n > 4 \/ fields[1] = <<>> THEN Invalid
  ELSE IF IsLetter(fields[1][1]) THEN
         LET tagFields == IF n = 2 THEN SplitBy(fields[2], COMMA)
                          ELSE LET rest == Tail(fields) IN
                               IF rest[Len(rest)] # <<>> /\ IsDigit(rest[Len(rest)][1]) THEN SubSeq(rest, 1, Len(rest) - 1) ELSE rest
             form == TagsOf(tagFields)
         IN IF form = {} THEN Invalid ELSE [kind |-> "entity", name |-> fields[1], form |-> form, off |-> 0]
       ELSE IF n = 2 /\ IsInteger(fields[1]) /\ FitsInt16(fields[1])
            THEN [kind |-> "collab", name |-> fields[2], form |-> {}, off |-> IntValue(fields[1])]
            ELSE Invalid

\* the valid references of a text with their ranges, left to right
Extract(s) ==
  LET c == Candidates(s, 1)
      parsed == [i \in DOMAIN c |-> LET r == ParseBody(SubSeq(s, c[i].s + 3, c[i].f - 1)) IN
                                   [kind |-> r.kind, name |-> r.name, form |-> r.form, off |-> r.off, s |-> c[i].s, f |-> c[i].f]]
  IN SelectSeq(parsed, LAMBDA r : r.kind # "invalid")

\* ------------------------------------------------------------ canonical spelling
RECURSIVE Int2Digits(_)
Int2Digits(n) == IF n < 10 THEN <<48 + n>> ELSE Append(Int2Digits(n \div 10), 48 + (n % 10))
Int2Str(n) == IF n < 0 THEN <<MINUS>> \o Int2Digits(0 - n) ELSE Int2Digits(n)
FormStr(form) == LET q == SetToSortSeq(form, <) IN
                 IF q = <<>> THEN <<>> ELSE FoldLeft(LAMBDA acc, k : acc \o <<COMMA>> \o TagNames[k], TagNames[q[1]], Tail(q))
Spelling(r) == IF r.kind = "entity" THEN <<AT, LB>> \o r.name \o <<BAR>> \o FormStr(r.form) \o <<RB>>
               ELSE <<AT, LB>> \o Int2Str(r.off) \o <<BAR>> \o r.name \o <<RB>>

\* ------------------------------------------------------------ resolution
\* ctx : entity name -> [nominal : text, manual : form -> text]   (missing entities are not in DOMAIN ctx)
\* the default text processor inflects nothing: a form without a manual spelling resolves to the nominal
Master(refs, i, off) ==       \* index of the |off|-th entity reference to the right (off > 0) / left (off < 0) of refs[i]
  IF off = 0 THEN 0
  ELSE LET idx == IF off > 0 THEN {j \in (i + 1)..Len(refs) : refs[j].kind = "entity"}
                  ELSE {j \in 1..(i - 1) : refs[j].kind = "entity"}
           k == IF off > 0 THEN off ELSE 0 - off
           RECURSIVE Nth(_, _)
           Nth(S, m) == IF S = {} THEN 0
                        ELSE LET x == IF off > 0 THEN MinOf(S) ELSE MaxOf(S) IN IF m = 1 THEN x ELSE Nth(S \ {x}, m - 1)
       IN Nth(idx, k)

\* kinds of resolution: "form" (the term's text for the form), or a placeholder whose wording is not normative
ResolutionKind(refs, i, ctx) ==
  LET r == refs[i] IN
  IF r.kind = "entity" THEN
       IF r.name \notin DOMAIN ctx THEN "missing"
       ELSE LET t == ctx[r.name]  txt == IF r.form \in DOMAIN t.manual THEN t.manual[r.form] ELSE t.nominal
            IN IF txt = <<>> THEN "empty" ELSE "form"
  ELSE IF r.name = <<>> THEN "empty" ELSE IF Master(refs, i, r.off) = 0 THEN "nomaster" ELSE "form"
ResolutionText(refs, i, ctx) ==     \* defined when ResolutionKind = "form"
  LET r == refs[i] IN
  IF r.kind = "entity" THEN LET t == ctx[r.name] IN IF r.form \in DOMAIN t.manual THEN t.manual[r.form] ELSE t.nominal
  ELSE r.name

\* the resolved text given the resolution of every reference (res[i] : text), and the resolved ranges
RECURSIVE ResolvedFrom(_, _, _, _)
ResolvedFrom(s, refs, res, i) ==    \* text from reference i on, starting right after reference i-1
  LET from == IF i = 1 THEN 0 ELSE refs[i - 1].f IN
  IF i > Len(refs) THEN SubSeq(s, from + 1, Len(s))
  ELSE SubSeq(s, from + 1, refs[i].s) \o res[i] \o ResolvedFrom(s, refs, res, i + 1)
RECURSIVE ShiftUpTo(_, _, _)
ShiftUpTo(refs, res, i) == IF i = 0 THEN 0 ELSE ShiftUpTo(refs, res, i - 1) + Len(res[i]) - (refs[i].f - refs[i].s)
ResolvedRange(refs, res, i) == LET s0 == refs[i].s + ShiftUpTo(refs, res, i - 1) IN [s |-> s0, f |-> s0 + Len(res[i])]

\* writing the references back over the resolved text restores the source up to canonical spelling
RECURSIVE Canonical(_, _, _)
Canonical(s, refs, i) ==
  LET from == IF i = 1 THEN 0 ELSE refs[i - 1].f IN
  IF i > Len(refs) THEN SubSeq(s, from + 1, Len(s))
  ELSE SubSeq(s, from + 1, refs[i].s) \o Spelling(refs[i]) \o Canonical(s, refs, i + 1)

Referals(s) == {r.name : r \in {x \in Range(Extract(s)) : x.kind = "entity"}}

\* renaming entities in a raw text: every entity reference whose name is in DOMAIN map (and changes) is respelled
RECURSIVE Renamed(_, _, _, _)
Renamed(s, refs, map, i) ==
  LET from == IF i = 1 THEN 0 ELSE refs[i - 1].f IN
  IF i > Len(refs) THEN SubSeq(s, from + 1, Len(s))
  ELSE LET r == refs[i]
           piece == IF r.kind = "entity" /\ r.name \in DOMAIN map /\ map[r.name] # r.name
                    THEN Spelling([r EXCEPT !.name = map[r.name]]) ELSE SubSeq(s, r.s + 1, r.f)
       IN SubSeq(s, from + 1, r.s) \o piece \o Renamed(s, refs, map, i + 1)
TranslateRaw(s, map) == Renamed(s, Extract(s), map, 1)

\* ------------------------------------------------------------ range bookkeeping of a manager (Insert / EraseIn)
\* ranges : sequence of [s, f], ordered, pairwise separated by at least one position
Ordered(ranges) == \A i \in 1..(Len(ranges) - 1) : ranges[i].f < ranges[i + 1].s
NonEmptyRanges(ranges) == \A i \in DOMAIN ranges : ranges[i].s < ranges[i].f

InsertAllowed(ranges, pos) == \A i \in DOMAIN ranges : pos < ranges[i].s \/ pos > ranges[i].f
InsertRange(ranges, pos, len) ==
  LET k == Cardinality({i \in DOMAIN ranges : ranges[i].s < pos}) IN
  SubSeq(ranges, 1, k) \o <<[s |-> pos, f |-> pos + len]>>
    \o [i \in 1..(Len(ranges) - k) |-> [s |-> ranges[k + i].s + len, f |-> ranges[k + i].f + len]]

\* EraseIn as the implementation's scan (deterministic model, drift level); result [ok, range, ranges]
RECURSIVE EraseScan(_, _, _, _, _, _)
EraseScan(ranges, rng, expand, i, checkFinish, first) ==
  \* i: next reference to look at; first: index of the first reference to erase (0 = none yet)
  LET Done(j, r) == [ok |-> TRUE, rng |-> r, stop |-> j, first |-> first] IN
  IF i > Len(ranges) THEN Done(i, rng)
  ELSE LET p == ranges[i] IN
       IF p.f = rng.s THEN EraseScan(ranges, rng, expand, i + 1, TRUE, first)
       ELSE IF p.f < rng.s THEN EraseScan(ranges, rng, expand, i + 1, checkFinish, first)
       ELSE IF rng.f = p.s THEN (IF checkFinish THEN [ok |-> FALSE, rng |-> rng, stop |-> i, first |-> first] ELSE Done(i, rng))
       ELSE IF p.s > rng.f THEN Done(i, rng)
       ELSE LET r2 == IF expand /\ ContainsRngImpl(Rng(p.s, p.f), Rng(rng.s, rng.f)) THEN [s |-> p.s, f |-> p.f] ELSE rng IN
            IF ContainsRngImpl(Rng(r2.s, r2.f), Rng(p.s, p.f))
            THEN LET res == EraseScan(ranges, r2, expand, i + 1, checkFinish, IF first = 0 THEN i ELSE first) IN res
            ELSE [ok |-> FALSE, rng |-> r2, stop |-> i, first |-> first]
EraseIn(ranges, rng, expand) ==
  LET sc == EraseScan(ranges, rng, expand, 1, FALSE, 0) IN
  IF ~sc.ok THEN [ok |-> FALSE, rng |-> rng, ranges |-> ranges]
  ELSE LET len == sc.rng.f - sc.rng.s
           firstErased == IF sc.first = 0 THEN sc.stop ELSE sc.first
           kept == SubSeq(ranges, 1, firstErased - 1)
           tail == [j \in 1..(Len(ranges) - sc.stop + 1) |-> [s |-> ranges[sc.stop + j - 1].s - len, f |-> ranges[sc.stop + j - 1].f - len]]
       IN [ok |-> TRUE, rng |-> sc.rng, ranges |-> kept \o tail]

\* property-level contract of an erase that reported range r: exactly the references wholly inside r disappear,
\* those before stay, those after move left by its length
EraseContract(before, r, after) ==
  LET inside == {i \in DOMAIN before : r.s <= before[i].s /\ before[i].f <= r.f}
      keep == SelectSeq([i \in DOMAIN before |-> [s |-> before[i].s, f |-> before[i].f, i |-> i]], LAMBDA x : x.i \notin inside)
      len == r.f - r.s
  IN /\ Len(after) = Len(keep)
     /\ \A j \in DOMAIN keep : IF keep[j].f <= r.s THEN after[j] = [s |-> keep[j].s, f |-> keep[j].f]
                                ELSE after[j] = [s |-> keep[j].s - len, f |-> keep[j].f - len]
     /\ \A i \in DOMAIN before : i \notin inside => (before[i].f <= r.s \/ before[i].s >= r.f)    \* no partial cut
=============================================================================
