CONSTANTS MaxDepth = 3
MaxArity = 3
SubsetCap = 4
Cells = {0, 1, 2, 10000000}
MaxRows = 3
MaxCols = 3
MutRows = 4
SPECIFICATION Spec
INVARIANT RoundTripTheorem
CONSTRAINT Emit
