------------------------------- MODULE Gen_C15 ------------------------------
(***************************************************************************)
(* Spec -> code for C15 (structured data as a finite-set algebra).         *)
(* A *recipe* says how a value is constructed in the library (enumeration  *)
(* in any order with duplicates, singleton, lazy power set, lazy product); *)
(* Den(recipe) is the mathematical object it denotes.  The implementation  *)
(* must answer every query on recipes exactly as mathematics answers it on *)
(* denotations.                                                             *)
(*  mode "pair": all ordered pairs of recipes of one typification.         *)
(*  mode "hist": histories of Copy / AddElement / Assign on a store of     *)
(*               three handles (value semantics: copies never alias).      *)
(***************************************************************************)
EXTENDS RSValues, TLC, Json
CONSTANTS NVals,        \* elements are 1..NVals
          MaxHist       \* length of handle histories

\* recipes: uniform records [k, n, c, ty]
R(k, n, c, ty) == [k |-> k, n |-> n, c |-> c, ty |-> ty]
X    == TBase("X1")
TyE  == X
TyT  == TTuple(<<X, X>>)
TyS  == TBool(X)
TyST == TBool(TyT)
TySS == TBool(TyS)
TyTS == TTuple(<<TyS, X>>)
TySTS == TBool(TyTS)
TySSS == TBool(TySS)

\* identifier of the n-th element: the identity, or (configurations *_w: IdOf <- WideId) identifiers whose differences do not fit
\* 32 bits, so that an ordering computed from a wrapped difference is not a strict total order (seed C15-J)
IdOf(n) == n
WideId(n) == CASE n = 1 -> -2000000000 [] n = 2 -> 100 [] n = 3 -> 2000000000 [] OTHER -> n
Val(n) == R("val", IdOf(n), <<>>, TyE)
Vals == {Val(i) : i \in 1..NVals}
TwoVals == {Val(1), Val(2)}
Tup(x, y, ty) == R("tuple", 0, <<x, y>>, ty)
Tups == {Tup(x, y, TyT) : x \in TwoVals, y \in TwoVals}
SeqsUpTo2(S) == {<<>>} \cup {<<x>> : x \in S} \cup {<<x, y>> : x \in S, y \in S}
SeqsUpTo3(S) == SeqsUpTo2(S) \cup {<<x, y, z>> : x \in S, y \in S, z \in S}
SetOf(q, ty) == R("set", 0, q, ty)
SetsE      == {SetOf(q, TyS) : q \in SeqsUpTo3(Vals)}
SmallSetsE == {SetOf(q, TyS) : q \in SeqsUpTo2(TwoVals)}
FullE      == SetOf([i \in 1..NVals |-> Val(i)], TyS)
SetsT == {SetOf(q, TyST) : q \in SeqsUpTo2(Tups)}
           \cup {R("prod", 0, <<x, y>>, TyST) : x \in SmallSetsE, y \in SmallSetsE}
SetsS == {SetOf(q, TySS) : q \in SeqsUpTo2(SmallSetsE)}
           \cup {R("pow", 0, <<x>>, TySS) : x \in SmallSetsE \cup {FullE}}
           \cup {R("single", 0, <<x>>, TySS) : x \in SmallSetsE}
TupsTS == {Tup(s, v, TyTS) : s \in {SetOf(<<>>, TyS), SetOf(<<Val(1)>>, TyS), SetOf(<<Val(2), Val(1)>>, TyS)}, v \in TwoVals}
PowSmall == {R("pow", 0, <<x>>, TySS) : x \in {SetOf(<<Val(1)>>, TyS), SetOf(<<Val(1), Val(2)>>, TyS)}}
SetsTS == {SetOf(q, TySTS) : q \in SeqsUpTo2(TupsTS)}
           \cup {R("prod", 0, <<p, y>>, TySTS) : p \in PowSmall, y \in SmallSetsE}
SmallSS == {SetOf(<<>>, TySS), SetOf(<<SetOf(<<>>, TyS)>>, TySS), SetOf(<<SetOf(<<Val(1)>>, TyS)>>, TySS),
            SetOf(<<SetOf(<<Val(1)>>, TyS), SetOf(<<>>, TyS)>>, TySS)} \cup PowSmall
SetsSS == {SetOf(q, TySSS) : q \in SeqsUpTo2(SmallSS)} \cup {R("pow", 0, <<p>>, TySSS) : p \in PowSmall}

RECURSIVE Den(_)
Den(r) == CASE r.k = "val" -> r.n
            [] r.k = "tuple" -> <<Den(r.c[1]), Den(r.c[2])>>
            [] r.k = "set" -> {Den(r.c[i]) : i \in 1..Len(r.c)}
            [] r.k = "single" -> {Den(r.c[1])}
            [] r.k = "pow" -> SUBSET Den(r.c[1])
            [] r.k = "prod" -> Den(r.c[1]) \X Den(r.c[2])

\* lazy sets with more than a hundred elements (every query walks them again and again)
Upto(n) == SetOf([i \in 1..n |-> Val(i)], TyS)
SetsBig == {R("pow", 0, <<Upto(7)>>, TySS), R("prod", 0, <<Upto(11), Upto(10)>>, TyST)}
Families == <<SetsE, SetsT, SetsS, SetsTS, SetsSS, Vals, Tups, TupsTS, SetsBig>>
FamilyOf(ty) == CASE ty = TyS -> SetsE [] ty = TyST -> SetsT [] ty = TySS -> SetsS [] ty = TySTS -> SetsTS
                  [] ty = TySSS -> SetsSS [] ty = TyE -> Vals [] ty = TyT -> Tups [] ty = TyTS -> TupsTS

VARIABLES mode, stage, a, b, store, hist
vars == <<mode, stage, a, b, store, hist>>

Handles == 1..3
HistPool == {SetOf(<<>>, TyS), SetOf(<<Val(2), Val(1)>>, TyS), R("pow", 0, <<SetOf(<<Val(1), Val(2)>>, TyS)>>, TySS),
             SetOf(<<SetOf(<<Val(1)>>, TyS)>>, TySS), R("prod", 0, <<SetOf(<<Val(1)>>, TyS), SetOf(<<Val(1), Val(2)>>, TyS)>>, TyST)}
ElemPool(ty) == CASE ty = TyS -> {Val(1), Val(3)} [] ty = TySS -> {SetOf(<<Val(1)>>, TyS), SetOf(<<Val(3)>>, TyS)}
                  [] ty = TyST -> {Tup(Val(1), Val(1), TyT), Tup(Val(3), Val(1), TyT)}
Cell(r) == [ty |-> r.ty, v |-> [v |-> Den(r)], lazy |-> r.k \in {"pow", "prod"}]

Init == \/ /\ mode = "pair" /\ stage = 1 /\ \E i \in 1..Len(Families) : a \in Families[i]
           /\ b = a /\ store = <<>> /\ hist = <<>>
        \/ /\ mode = "hist" /\ stage = 1 /\ a = Val(1) /\ b = Val(1)
           /\ \E r \in HistPool : /\ store = [h \in Handles |-> Cell(r)]     \* all three handles start as copies of one value
                                  /\ hist = <<[op |-> "Init", i |-> 0, j |-> 0, r |-> r]>>

Next ==
  \/ /\ mode = "pair" /\ stage = 1 /\ stage' = 2 /\ UNCHANGED <<mode, a, store, hist>>
     /\ IF a \in SetsBig THEN b' \in {a} \cup {x \in FamilyOf(a.ty) : x.k \in {"pow", "prod"}} \cup {SetOf(<<>>, a.ty)} ELSE b' \in FamilyOf(a.ty)
  \/ /\ mode = "hist" /\ Len(hist) <= MaxHist /\ UNCHANGED <<mode, stage, a, b>>
     /\ \/ \E i, j \in Handles : i # j /\ store' = [store EXCEPT ![j] = store[i]]
                                       /\ hist' = Append(hist, [op |-> "Copy", i |-> i, j |-> j, r |-> Val(1)])
        \* AddElement is exercised on enumerated representations only: what a lazy power set / product does with it
        \* (today: refuses) is not fixed by the property.  Lazy handles still take part in Copy / Assign.
        \/ \E i \in Handles : \E e \in ElemPool(store[i].ty) :
              /\ ~store[i].lazy
              /\ hist' = Append(hist, [op |-> "AddElement", i |-> i, j |-> 0, r |-> e])
              /\ store' = [store EXCEPT ![i].v = [v |-> store[i].v.v \cup {Den(e)}]]
        \/ \E i \in Handles : \E r \in HistPool :
              /\ store' = [store EXCEPT ![i] = Cell(r)]
              /\ hist' = Append(hist, [op |-> "Assign", i |-> i, j |-> 0, r |-> r])

Spec == Init /\ [][Next]_vars

IsSetTy(ty) == ty.k = "bool"
PairCase ==
  LET x == Den(a)  y == Den(b)  ty == a.ty IN
  IF IsSetTy(ty) THEN
    [kind |-> "sets", a |-> a, b |-> b, ty |-> ty,
     eq |-> x = y, lt |-> Less(x, y, ty), sub |-> x \subseteq y, card |-> Cardinality(x),
     items |-> Enc(x, ty),
     un |-> Enc(x \cup y, ty), inter |-> Enc(x \cap y, ty), diff |-> Enc(x \ y, ty),
     sym |-> Enc((x \ y) \cup (y \ x), ty),
     memb |-> LET q == SortBy(y, ty.c[1]) IN [i \in 1..Len(q) |-> q[i] \in x],
     red |-> IF ty.c[1].k = "bool" THEN <<Enc(UNION x, ty.c[1])>> ELSE <<>>,
     proj |-> IF ty.c[1].k = "tuple" THEN <<Enc({e[2] : e \in x}, TBool(ty.c[1].c[2])),
                                            Enc({<<e[2], e[1]>> : e \in x}, TBool(TTuple(<<ty.c[1].c[2], ty.c[1].c[1]>>)))>>
              ELSE <<>>,
     deb |-> IF Cardinality(x) = 1 THEN <<Enc(CHOOSE e \in x : TRUE, ty.c[1])>> ELSE <<>>,
     single |-> Enc({x}, TBool(ty))]
  ELSE
    [kind |-> "elems", a |-> a, b |-> b, ty |-> ty, eq |-> x = y, lt |-> Less(x, y, ty), items |-> Enc(x, ty)]

HistCase == [kind |-> "hist", hist |-> hist,
             final |-> [h \in Handles |-> [v |-> Enc(store[h].v.v, store[h].ty), lazy |-> store[h].lazy]]]
Emit == IF mode = "pair" THEN (stage = 2 => PrintT(<<"CASE", ToJson(PairCase)>>))
        ELSE PrintT(<<"CASE", ToJson(HistCase)>>)

\* model-level sanity, checked on every generated pair: Less is a strict order consistent with equality
OrderTheorem == (mode = "pair" /\ stage = 2) =>
   LET x == Den(a)  y == Den(b) IN
   /\ ~Less(x, x, a.ty)
   /\ (x = y) <=> (~Less(x, y, a.ty) /\ ~Less(y, x, a.ty))
   /\ ~(Less(x, y, a.ty) /\ Less(y, x, a.ty))
=============================================================================
