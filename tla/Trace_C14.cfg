CONSTANTS Ids = {1}
SPECIFICATION TSpec
INVARIANT PropC14
POSTCONDITION TraceAccepted
CHECK_DEADLOCK FALSE
