CONSTANTS ConstIds = {"C1", "C2", "C3"}
MaxA = 4
MaxB = 1
MaxPairs = 1
Modes = {"equate", "equate2"}
SPECIFICATION Spec
INVARIANT ContractHolds
CONSTRAINT Emit
