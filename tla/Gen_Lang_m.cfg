CONSTANTS ConstIds = {"C1"}
WrapSet = "few"
SPECIFICATION Spec
INVARIANT Sound
CONSTRAINT Emit
