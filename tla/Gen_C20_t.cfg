CONSTANTS Hi = 5
Alphabet = {97, 32, 44, 45, 55, 9, 1077, 8492, 132878, 1114111}
MaxLen = 5
MaxList = 3
SPECIFICATION Spec
CONSTRAINT Emit
