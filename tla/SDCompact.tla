------------------------------- MODULE SDCompact ----------------------------
(***************************************************************************)
(* The compact integer-table encoding of structured data                   *)
(* (ccl::object::SDCompact): Pack(v, t) and Unpack(rows, t).  C16 (and the *)
(* model-data part of C10).  Unpack is written as the cursor automaton of  *)
(* the implementation (row x, column y, both 0-based) so that its          *)
(* in-bounds discipline is itself model-checked: an out-of-range read in   *)
(* this module is a TLC evaluation error.                                  *)
(***************************************************************************)
EXTENDS RSValues

UnknownCount == 10000000

RECURSIVE PackInto(_, _, _)
\* append the encoding of v : t to the open (last) row of rows
PackInto(rows, v, t) ==
  LET n == Len(rows) IN
  CASE t.k = "tuple" ->
         LET RECURSIVE F(_, _)
             F(i, acc) == IF i > Len(t.c) THEN acc ELSE F(i + 1, PackInto(acc, v[i], t.c[i]))
         IN F(1, rows)
    [] t.k = "bool" ->
         IF v = {} THEN [rows EXCEPT ![n] = rows[n] \o [i \in 1..Zeros(t) |-> 0]]
         ELSE LET counted == [rows EXCEPT ![n] = Append(rows[n], Cardinality(v))]
                  prefix  == counted[n]               \* every element row starts with the current row prefix
                  elems   == SortBy(v, t.c[1])
                  RECURSIVE F(_, _)
                  F(i, acc) == IF i > Len(elems) THEN acc
                               ELSE F(i + 1, Append(PackInto(acc, elems[i], t.c[1]), prefix))
                  all == F(1, counted)
              IN SubSeq(all, 1, Len(all) - 1)
    [] OTHER -> [rows EXCEPT ![n] = Append(rows[n], v)]

Pack(v, t) == PackInto(<< <<>> >>, v, t)

Fail == [ok |-> FALSE, v |-> 0, x |-> 0, y |-> 0]
Res(v, x, y) == [ok |-> TRUE, v |-> v, x |-> x, y |-> y]

RECURSIVE UnpackFor(_, _, _, _)
UnpackFor(rows, t, x, y) ==
  IF x >= Len(rows) \/ y >= Len(rows[x + 1]) THEN Fail          \* the only bounds check of the decoder
  ELSE
  CASE t.k = "tuple" ->
         LET RECURSIVE F(_, _, _, _)
             F(i, acc, cx, cy) ==
               IF i > Len(t.c) THEN Res(acc, cx, cy)
               ELSE LET r == UnpackFor(rows, t.c[i], cx, cy) IN IF ~r.ok THEN Fail ELSE F(i + 1, Append(acc, r.v), r.x, r.y)
         IN F(1, <<>>, x, y)
    [] t.k = "bool" ->
         LET count == rows[x + 1][y + 1] IN
         IF count = 0 THEN Res({}, x, y + Zeros(t))              \* skip the zeros of the empty set's shape
         ELSE LET RECURSIVE L(_, _, _, _)
                  \* cx: row of the next element, cnt: elements still to read (-1 = until the end), ly: column after the last one
                  L(cx, cnt, acc, ly) ==
                    IF cx < Len(rows) /\ cnt # 0 THEN
                      LET r == UnpackFor(rows, t.c[1], cx, y + 1) IN
                      IF ~r.ok \/ r.v \in acc THEN Fail            \* malformed element or duplicate
                      ELSE L(r.x + 1, IF cnt > 0 THEN cnt - 1 ELSE cnt, acc \cup {r.v}, r.y)
                    ELSE IF cnt > 0 THEN Fail ELSE Res(acc, cx - 1, ly)
              IN IF count = UnknownCount THEN L(x, -1, {}, y)
                 ELSE IF count < 0 THEN Fail ELSE L(x, count, {}, y)
    [] OTHER -> Res(rows[x + 1][y + 1], x, y + 1)

Unpack(rows, t) == LET r == UnpackFor(rows, t, 0, 0)
                   IN IF r.ok /\ r.x + 1 = Len(rows) THEN [ok |-> TRUE, v |-> r.v] ELSE [ok |-> FALSE, v |-> 0]

RoundTrips(v, t) == LET r == Unpack(Pack(v, t), t) IN r.ok /\ r.v = v
=============================================================================
