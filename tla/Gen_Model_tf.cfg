CONSTANTS ConstIds = {"C1", "C2", "C3"}
MaxLen = 5
MaxCst = 5
Preset = "func"
SPECIFICATION Spec
CONSTRAINT Emit
