CONSTANTS MaxLen = 4
SPECIFICATION Spec
CONSTRAINT Emit
