CONSTANTS MaxAtoms = 5
MaxOps = 0
AtomSet = {1, 2, 3, 4, 5, 9, 10, 12, 13, 17, 19, 22, 23, 26, 27, 28, 38}
WithMgr = FALSE
SPECIFICATION Spec
CONSTRAINT Emit
