CONSTANTS Ids = {1, 2, 3, 4}
MaxLen = 3
WithUpdatable = FALSE
SPECIFICATION Spec
CONSTRAINT Emit
