------------------------------ MODULE Trace_C04 -----------------------------
(* Code -> spec for C04: one event per public analysis call on model-generated input       *)
(* (function, syntax hint, whether it reported success, number of critical errors logged,   *)
(* reported positions, input length).  Every event must satisfy Post.                       *)
EXTENDS Integers, Sequences, TLC, Json, IOUtils
VARIABLES l, seen
TraceLog == ndJsonDeserialize(IOEnv.TRACE)
NoObs == [e |-> "none"]
TInit == l = 1 /\ seen = NoObs
TNext == l <= Len(TraceLog) /\ l' = l + 1 /\ seen' = TraceLog[l]
TSpec == TInit /\ [][TNext]_<<l, seen>>

\* same predicate as Gen_C04!Post
Post(ev) == /\ ev.returned
            /\ (ev.ok = FALSE) <=> (ev.ncritical >= 1)
            /\ \A i \in DOMAIN ev.positions : ev.positions[i] >= 0 /\ ev.positions[i] <= ev.len
PropC04 == CASE seen.e = "Call" -> Post(seen) [] seen.e = "Fault" -> FALSE [] OTHER -> TRUE
TraceAccepted == TLCGet("stats").diameter - 1 = Len(TraceLog)
=============================================================================
