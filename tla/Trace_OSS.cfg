SPECIFICATION TSpec
INVARIANT PropOSS
POSTCONDITION TraceAccepted
CHECK_DEADLOCK FALSE
