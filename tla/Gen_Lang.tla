------------------------------- MODULE Gen_Lang -----------------------------
(***************************************************************************)
(* Spec -> code generator of the language layer (C01, C02, C03).           *)
(* Expression trees are built by actions: stage 1 = any one-constructor    *)
(* tree over the leaves plus hand-shaped feature seeds (filters, recursion,*)
(* imperative blocks, binders, calls); stage 2 = any wrapping of a stage-1 *)
(* tree in one more constructor.  Each emitted case carries the verdict    *)
(* and typification of RSTyping and, for accepted trees, the strict and    *)
(* kleene values of RSEval under three interpretations.                    *)
(* Sound (C02's model theorem: the typing rules are sound w.r.t. the       *)
(* semantics) is checked as an invariant on every generated tree.          *)
(***************************************************************************)
EXTENDS RSEval, RSSyntax, SequencesExt, Json
CONSTANTS WrapSet    \* "all": stage 2 wraps with every leaf of D0; "few": with X1 and S1 only (quick tier)
VARIABLES c, stage

TX1 == TBase("X1")
G == [X1 |-> TBool(TX1), S1 |-> TBool(TTuple(<<TX1, TX1>>)), S2 |-> TBool(TBool(TX1)), C1 |-> TBool(TBase("C1")),
      F1 |-> TBool(TBool(TX1)), F2 |-> TBool(TRad("R1")), F3 |-> TBool(TX1), F4 |-> TBool(TX1),
      F5 |-> TBool(TTuple(<<TX1, TX1>>)), F6 |-> TBool(TX1), F7 |-> TBool(TBool(TRad("R1"))), P1 |-> TLogic, A1 |-> TLogic]
F == [F1 |-> [args |-> <<[name |-> "a", type |-> TBool(TX1)]>>],
      F2 |-> [args |-> <<[name |-> "a", type |-> TBool(TRad("R1"))], [name |-> "b", type |-> TRad("R1")]>>],
      F3 |-> [args |-> <<[name |-> "a", type |-> TBool(TX1)]>>],
      F4 |-> [args |-> <<[name |-> "a", type |-> TBool(TX1)], [name |-> "b", type |-> TBool(TX1)]>>],
      F5 |-> [args |-> <<[name |-> "a", type |-> TBool(TX1)]>>],
      F6 |-> [args |-> <<[name |-> "a", type |-> TBool(TTuple(<<TX1, TX1>>))]>>],
      F7 |-> [args |-> <<[name |-> "a", type |-> TBool(TRad("R1"))]>>],
      P1 |-> [args |-> <<[name |-> "a", type |-> TBool(TX1)]>>]]
La == Loc("a")  Lb == Loc("b")  Lc == Loc("c")
FD == [F1 |-> [args |-> <<"a">>, body |-> Node("ENUM", <<La>>)],
       F2 |-> [args |-> <<"a", "b">>, body |-> Node("UNION", <<La, Node("ENUM", <<Lb>>)>>)],
       F3 |-> [args |-> <<"a">>, body |-> Node("DECLARATIVE", <<Lb, La, Node("EXISTS", <<Lc, La, Node("NOTEQUAL", <<Lc, Lb>>)>>)>>)],
       F4 |-> [args |-> <<"a", "b">>, body |-> Node("DECLARATIVE", <<Lc, La, Node("EXISTS", <<Loc("d"), Lb, Node("EQUAL", <<Loc("d"), Lc>>)>>)>>)],
       \* F5, F6: the first local of the body is a pair in one and an element in the other (nested calls must keep their locals apart)
       F5 |-> [args |-> <<"a">>, body |-> Node("DECLARATIVE", <<Lb, Node("DECART", <<La, La>>), Node("AND", <<Node("EQUAL", <<La, La>>), Node("IN", <<Idx("SMALLPR", <<1>>, <<Lb>>), La>>)>>)>>)],
       F6 |-> [args |-> <<"a">>, body |-> Node("DECLARATIVE", <<Lb, Idx("BIGPR", <<1>>, <<La>>), Node("EXISTS", <<Lc, La, Node("EQUAL", <<Idx("SMALLPR", <<1>>, <<Lc>>), Lb>>)>>)>>)],
       \* F7 is a property by itself (power set) and uses its parameter where only a value may stand: a property argument is improper
       F7 |-> [args |-> <<"a">>, body |-> Node("SET_MINUS", <<Node("BOOLEAN", <<La>>), Node("ENUM", <<La>>)>>)],
       P1 |-> [args |-> <<"a">>, body |-> Node("EQUAL", <<La, Glob("X1")>>)]]
Interps == <<
  [X1 |-> {1,2}, S1 |-> {<<1,1>>, <<1,2>>}, S2 |-> {{}, {1}}, C1 |-> {1,2,3}, A1 |-> TRUE],
  [X1 |-> {1},   S1 |-> {},                 S2 |-> {{1}},     C1 |-> {1,2}, A1 |-> TRUE],
  [X1 |-> {1,2,3}, S1 |-> {<<2,1>>, <<3,3>>, <<1,2>>}, S2 |-> {{1,2}, {2,3}, {3}}, C1 |-> {1}, A1 |-> TRUE],
  \* a relation whose images shrink step by step ({1,2,3} -> {2,3} -> {3} -> {}): recursions that stabilise only after several steps
  [X1 |-> {1,2,3}, S1 |-> {<<1,2>>, <<2,3>>}, S2 |-> {{1}, {2,3}}, C1 |-> {1,2}, A1 |-> TRUE] >>

RECURSIVE EncU(_, _)
\* wire encoding with sets in arbitrary order (the harness canonicalises)
EncU(v, t) ==
  CASE t.k \in {"Z", "base", "logic", "rad"} -> v
    [] t.k = "tuple" -> [t |-> [i \in 1..Len(t.c) |-> EncU(v[i], t.c[i])]]
    [] t.k = "bool" -> [s |-> SetToSeq({EncU(x, t.c[1]) : x \in v})]
    [] OTHER -> [s |-> <<>>]

D0 == {Glob("X1"), Glob("S1"), Glob("S2"), Glob("C1"), IntLit(1), Empty}
A0 == D0 \cup {La}
Ixs == {<<1>>, <<2>>, <<1,2>>, <<3>>}
Ixs0 == Ixs \cup {<<0>>, <<1, 0>>, <<0, 1>>}        \* an index written as 0 is in no tuple (stage 1 only)
SetBinLike == SetBin \cup Arith \cup {"DECART", "TUPLE", "ENUM"}
Un == {"CARD", "DEBOOL", "BOOL", "BOOLEAN", "REDUCE"}
LogOps2(S, T) == {Node(o, <<x, y>>) : o \in Preds, x \in S, y \in T}
A1log == {p \in LogOps2(A0, A0) : p.ch[1].id = "LOCAL" \/ p.ch[2].id = "LOCAL"}
SmallLog == {Node("EQUAL", <<IntLit(1), IntLit(1)>>), Node("IN", <<Glob("X1"), Glob("S2")>>),
             Node("EQUAL", <<Node("DEBOOL", <<Glob("X1")>>), IntLit(1)>>),
             Node("SUBSET", <<Glob("X1"), Glob("X1")>>)}
IsLogic(e) == e.id \in Preds \cup LogBin \cup Quant \cup {"NOT"} \/ (e.id = "CALL" /\ e.s = "P1")

X1xX1 == Node("DECART", <<Glob("X1"), Glob("X1")>>)
X1xC1 == Node("DECART", <<Glob("X1"), Glob("C1")>>)
One == Node("ENUM", <<IntLit(1)>>)
TupAB == Node("TUPLEDECL", <<La, Lb>>)
EnAB  == Node("ENUMDECL", <<La, Lb>>)
PairPreds == {Node(o, <<La, Lb>>) : o \in {"EQUAL", "NOTEQUAL", "IN", "LESSER", "SUBSET_OR_EQ"}}
             \cup {Node("IN", <<Node("TUPLE", <<La, Lb>>), Glob("S1")>>), Node("EQUAL", <<La, La>>)}
Doms == D0 \cup {X1xX1, X1xC1, Node("BOOLEAN", <<Glob("X1")>>)}

SeedFilter ==
       {Idx("FILTER", ix, <<p, a>>) : ix \in {<<1>>, <<2>>, <<3>>, <<1,2>>, <<2,1>>}, p \in D0 \cup {X1xX1, One}, a \in {Glob("S1"), Glob("S2"), Empty, X1xX1, X1xC1}}
  \cup {Idx("FILTER", ix, <<p, a>>) : ix \in {<<0>>, <<0, 1>>}, p \in {Glob("X1")}, a \in {Glob("S1"), X1xX1}}
  \cup {Idx("FILTER", ix, <<p, q, a>>) : ix \in {<<1,2>>, <<2,1>>, <<1,1>>, <<1>>, <<1,2,1>>}, p \in {Glob("X1"), Glob("C1"), Empty, One}, q \in {Glob("X1"), Glob("C1"), Empty, One}, a \in {Glob("S1"), X1xX1, X1xC1}}
RecBodies == {Node("UNION", <<La, Glob("X1")>>), Node("SET_MINUS", <<La, La>>), Node("UNION", <<La, One>>), Node("UNION", <<La, Glob("S1")>>),
              Node("PLUS", <<La, IntLit(1)>>), Node("ENUM", <<La>>), La, Node("UNION", <<La, Node("ENUM", <<Glob("X1")>>)>>),
              Node("INTERSECTION", <<La, Glob("X1")>>), Node("UNION", <<La, Idx("BIGPR", <<1>>, <<La>>)>>),
              \* the image of a under the relation S1 (not inflationary: may need several steps to stabilise)
              Idx("BIGPR", <<2>>, <<Idx("FILTER", <<1>>, <<La, Glob("S1")>>)>>),
              Node("INTERSECTION", <<La, Idx("BIGPR", <<2>>, <<Idx("FILTER", <<1>>, <<La, Glob("S1")>>)>>)>>)}
RecConds == {Node("LESSER", <<Node("CARD", <<La>>), IntLit(2)>>), Node("EQUAL", <<IntLit(1), IntLit(1)>>), Node("LESSER", <<La, IntLit(3)>>), Node("NOTEQUAL", <<La, Glob("X1")>>)}
SeedRec == {Node("REC_SHORT", <<La, i, b>>) : i \in D0, b \in RecBodies}
      \cup {Node("REC_FULL", <<La, i, cnd, b>>) : i \in {Glob("X1"), Empty, IntLit(1), Glob("S2")}, cnd \in RecConds, b \in RecBodies}
      \cup {Node("REC_SHORT", <<TupAB, i, b>>) : i \in {Node("TUPLE", <<Glob("X1"), IntLit(1)>>), Glob("S1")}, b \in {Node("TUPLE", <<La, Lb>>), Node("TUPLE", <<La, Node("PLUS", <<Lb, IntLit(1)>>)>>), La}}
      \* full form with a tuple declaration: the condition and the step both use the components
      \cup {Node("REC_FULL", <<TupAB, Node("TUPLE", <<IntLit(1), i>>), cnd, b>>) :
               i \in {Glob("X1"), Empty}, cnd \in {Node("LESSER", <<La, IntLit(3)>>), Node("LESSER", <<Node("CARD", <<Lb>>), IntLit(2)>>), Node("EQUAL", <<IntLit(1), IntLit(1)>>)},
               b \in {Node("TUPLE", <<Node("PLUS", <<La, IntLit(1)>>), Lb>>), Node("TUPLE", <<La, Node("UNION", <<Lb, Glob("X1")>>)>>), Node("TUPLE", <<La, Lb>>)}}
      \* empty-set components whose type is deduced only after several rounds (each round fixes one more component)
      \cup {Node("REC_SHORT", <<Node("TUPLEDECL", <<La, Lb, Lc>>), Node("TUPLE", <<x, y, Glob("X1")>>), b>>) :
               x \in {Empty, Glob("X1")}, y \in {Empty, Glob("S2")},
               b \in {Node("TUPLE", <<Lb, Lc, Lc>>), Node("TUPLE", <<La, Lb, Lc>>), Node("TUPLE", <<Lc, La, Lc>>), Node("TUPLE", <<Lb, La, Lc>>)}}
      \cup {Node("EQUAL", <<Node("REC_SHORT", <<TupAB, Node("TUPLE", <<Empty, Glob("X1")>>), Node("TUPLE", <<Lb, Lb>>)>>), x>>) :
               x \in {Node("TUPLE", <<Glob("X1"), Glob("X1")>>), Node("TUPLE", <<Glob("S1"), Glob("X1")>>), Node("TUPLE", <<Empty, Glob("X1")>>)}}
It(d, s) == Node("ITERATE", <<d, s>>)
As(d, x) == Node("ASSIGN", <<d, x>>)
SeedImp == {Node("IMPERATIVE", <<La, It(La, d)>>) : d \in Doms}
      \cup {Node("IMPERATIVE", <<Node("TUPLE", <<La, Lb>>), It(La, d), As(Lb, x)>>) : d \in Doms, x \in {La, Node("ENUM", <<La>>), Glob("X1"), IntLit(1)}}
      \cup {Node("IMPERATIVE", <<Node("TUPLE", <<La, Lb>>), It(La, d), It(Lb, d2), p>>) : d \in {Glob("X1"), Glob("C1"), Glob("S2")}, d2 \in {Glob("X1"), Glob("C1"), La}, p \in PairPreds}
      \cup {Node("IMPERATIVE", <<v, It(TupAB, d), p>>) : v \in {La, Lb, Node("TUPLE", <<Lb, La>>)}, d \in {Glob("S1"), X1xX1, X1xC1, Glob("X1")}, p \in PairPreds}
      \cup {Node("IMPERATIVE", <<La, It(La, Glob("X1")), It(La, Glob("X1"))>>), Node("IMPERATIVE", <<Lb, It(La, Glob("X1"))>>)}
      \* an inner iteration whose domain depends on the outer variable through an assigned local (and an assignment after it)
      \cup {Node("IMPERATIVE", <<Node("TUPLE", <<La, Lc>>), It(La, d), As(Lb, x), It(Lc, y)>>) :
               d \in {Glob("X1"), Glob("S2")}, x \in {Node("ENUM", <<La>>), La, Glob("X1")}, y \in {Lb, Glob("X1")}}
      \cup {Node("IMPERATIVE", <<Node("TUPLE", <<La, Lc>>), It(La, Glob("X1")), As(Lb, Node("ENUM", <<La>>)), It(Lc, Lb), Node("EQUAL", <<Lc, La>>)>>),
            Node("IMPERATIVE", <<Node("TUPLE", <<La, Lb, Lc>>), It(La, Glob("X1")), It(Lb, Glob("X1")), As(Lc, Node("ENUM", <<La, Lb>>))>>)}
SeedBind == {Node(q, <<TupAB, d, p>>) : q \in Quant \cup {"DECLARATIVE"}, d \in Doms, p \in PairPreds}
       \cup {Node(q, <<EnAB, d, p>>) : q \in Quant, d \in Doms, p \in PairPreds}
       \cup {Node(q, <<La, d, Node("EXISTS", <<La, d, Node("EQUAL", <<La, La>>)>>)>>) : q \in Quant, d \in {Glob("X1")}}
       \cup {Node("AND", <<Node("FORALL", <<La, Glob("X1"), Node("EQUAL", <<La, La>>)>>), Node("EQUAL", <<La, Glob("X1")>>)>>),
             Node("AND", <<Node("FORALL", <<La, Glob("X1"), Node("EQUAL", <<La, La>>)>>), Node("EXISTS", <<La, Glob("S2"), Node("EQUAL", <<La, La>>)>>)>>)}
\* an enumerated declaration that mixes a tuple pattern with a plain variable: "\A (a,b),c \in S1": c is a pair
MixPreds == {Node("IN", <<Lc, Glob("S1")>>), Node("EQUAL", <<Idx("SMALLPR", <<1>>, <<Lc>>), La>>), Node("EQUAL", <<Lc, La>>), Node("IN", <<Lc, Glob("X1")>>),
             Node("EQUAL", <<Node("TUPLE", <<La, Lb>>), Lc>>), Node("EQUAL", <<Idx("SMALLPR", <<2>>, <<Lc>>), Lb>>)}
SeedBindMix == {Node(q, <<Node("ENUMDECL", ds), d, p>>) : q \in Quant, ds \in {<<TupAB, Lc>>, <<Lc, TupAB>>}, d \in {Glob("S1"), X1xX1}, p \in MixPreds}
Args == D0 \cup {Node("ENUM", <<Empty>>), One, Node("BOOLEAN", <<Glob("X1")>>), Node("ENUM", <<Glob("X1")>>), Node("PLUS", <<IntLit(1), IntLit(1)>>), Call("F1", <<Glob("X1")>>), Call("F3", <<Glob("X1")>>)}
SeedCall == {Call(f, <<x>>) : f \in {"F1", "F3", "P1", "F2", "F7", "F9"}, x \in Args}
       \cup {Call(f, <<x, y>>) : f \in {"F2", "F1"}, x \in Args, y \in Args}
       \cup {Glob("F1"), Glob("P1"), Glob("D7")}
       \* nested calls of functions whose bodies use the same local names (argument substitution must be capture-free)
       \cup {Call("F4", <<x, Call("F4", <<y, z>>)>>) : x \in {Glob("X1"), One}, y \in {Glob("X1"), One}, z \in {Glob("X1"), One}}
       \cup {Call("F4", <<Call("F4", <<y, z>>), x>>) : x \in {Glob("X1"), One}, y \in {Glob("X1"), One}, z \in {Glob("X1"), One}}
       \cup {Call("F3", <<Call("F4", <<Glob("X1"), Call("F3", <<Glob("X1")>>)>>)>>), Call("F4", <<Call("F3", <<Glob("X1")>>), Call("F3", <<Glob("X1")>>)>>),
             Call("F2", <<Call("F2", <<Glob("X1"), IntLit(1)>>), Node("DEBOOL", <<Call("F2", <<Empty, IntLit(1)>>)>>)>>),
             Call("F2", <<Call("F1", <<Glob("X1")>>), Call("F4", <<Glob("X1"), Glob("X1")>>)>>)}
\* scope discipline: a bound name used after its scope ended, and names re-declared at another nesting depth
Lab == Loc("ab")  Lbc == Loc("bc")
AllA(body) == Node("FORALL", <<La, Glob("X1"), body>>)
AllB(body) == Node("FORALL", <<Lb, Glob("X1"), body>>)
EqAB == Node("EQUAL", <<La, Lb>>)
SeedScope == {Node("AND", <<AllA(Node("EQUAL", <<La, La>>)), AllB(Node("AND", <<AllA(EqAB), EqAB>>))>>),
              Node("AND", <<AllB(AllA(EqAB)), AllA(AllB(EqAB))>>),
              Node("AND", <<AllA(AllB(EqAB)), AllB(AllA(AllB(EqAB)))>>),
              AllA(AllB(AllA(EqAB))), Node("AND", <<AllA(Node("EQUAL", <<La, La>>)), Node("EQUAL", <<La, La>>)>>),
              Node("OR", <<AllA(AllB(EqAB)), AllA(Node("NOT", <<AllB(EqAB)>>))>>),
              \* tuple binders whose concatenated names coincide: (ab, c) inside (a, bc)
              Node("DECLARATIVE", <<Node("TUPLEDECL", <<Lab, Lc>>), X1xX1,
                    Node("EXISTS", <<Node("TUPLEDECL", <<La, Lbc>>), X1xX1,
                          Node("AND", <<Node("AND", <<Node("EQUAL", <<Lab, La>>), Node("NOTEQUAL", <<Lc, Lbc>>)>>), Node("NOTEQUAL", <<Lab, Lc>>)>>)>>)>>)}
\* a LOGIC-typed global (axiom A1) has no admissible use as an operand
SeedAxiom == {Node("NOT", <<Node("EQUAL", <<Glob("A1"), Glob("A1")>>)>>), Node("TUPLE", <<Glob("A1"), Glob("X1")>>)}
        \cup {Node(o, <<Glob("A1"), x>>) : o \in SetBinLike \cup Preds, x \in {Glob("X1"), IntLit(1)}}
        \cup {Node(o, <<x, Glob("A1")>>) : o \in SetBinLike \cup Preds, x \in {Glob("X1"), IntLit(1)}}
        \cup {Node(o, <<Glob("A1")>>) : o \in Un} \cup {Node("ENUM", <<Glob("A1")>>), Call("F1", <<Glob("A1")>>)}
        \cup {Node("FORALL", <<La, Glob("A1"), Node("EQUAL", <<La, La>>)>>), Node("DECLARATIVE", <<La, Glob("X1"), Node("IN", <<La, Glob("A1")>>)>>)}
\* operands in a lazy representation (power set / product) that does NOT contain every element of the other operand
Pr1S1 == Idx("BIGPR", <<1>>, <<Glob("S1")>>)
Pr2S1 == Idx("BIGPR", <<2>>, <<Glob("S1")>>)
Diag == Node("DECLARATIVE", <<La, Glob("X1"), Node("IN", <<Node("TUPLE", <<La, La>>), Glob("S1")>>)>>)     \* {a in X1 | (a,a) in S1}
LazyPairs == {<<Node("BOOLEAN", <<Pr1S1>>), Node("ENUM", <<Glob("X1")>>)>>, <<Node("BOOLEAN", <<Pr1S1>>), Glob("S2")>>,
              <<Node("BOOLEAN", <<Diag>>), Glob("S2")>>, <<Node("BOOLEAN", <<Glob("X1")>>), Node("BOOLEAN", <<Pr1S1>>)>>,
              <<Node("DECART", <<Pr1S1, Pr2S1>>), Glob("S1")>>, <<Node("DECART", <<Diag, Glob("X1")>>), Glob("S1")>>,
              <<X1xX1, Glob("S1")>>, <<Node("DECART", <<Pr1S1, Pr1S1>>), Node("DECART", <<Pr2S1, Diag>>)>>,
              <<Node("BOOLEAN", <<Node("SET_MINUS", <<Glob("X1"), Glob("X1")>>)>>), Node("ENUM", <<Glob("X1")>>)>>,
              \* a lazy product / power set against the extensionally equal enumerated set
              <<X1xX1, Node("DECLARATIVE", <<La, X1xX1, Node("EQUAL", <<La, La>>)>>)>>,
              <<X1xC1, Node("DECLARATIVE", <<La, X1xC1, Node("EQUAL", <<La, La>>)>>)>>,
              <<Node("BOOLEAN", <<Glob("X1")>>), Node("DECLARATIVE", <<La, Node("BOOLEAN", <<Glob("X1")>>), Node("EQUAL", <<La, La>>)>>)>>}
SeedLazy == {Node(o, <<p[1], p[2]>>) : o \in SetBin \cup SubPred \cup EqPred, p \in LazyPairs}
       \cup {Node(o, <<p[2], p[1]>>) : o \in SetBin \cup SubPred \cup EqPred, p \in LazyPairs}
       \cup {Node("CARD", <<Node(o, <<p[1], p[2]>>)>>) : o \in SetBin, p \in LazyPairs}
       \cup {Node("IN", <<Glob("X1"), Node("UNION", <<p[1], p[2]>>)>>) : p \in LazyPairs}
\* nested calls with proper subsets as arguments (a captured or overwritten bound variable changes the value)
SubArgs == {Glob("X1"), Diag, Pr1S1}
SeedNested == {Call("F4", <<x, Call("F4", <<y, z>>)>>) : x \in SubArgs, y \in SubArgs, z \in SubArgs}
         \cup {Call("F4", <<Call("F4", <<y, z>>), x>>) : x \in SubArgs, y \in SubArgs, z \in SubArgs}
         \cup {Call("F3", <<Call("F4", <<x, Call("F3", <<y>>)>>)>>) : x \in SubArgs, y \in SubArgs}
         \cup {Call("F4", <<Call("F3", <<x>>), Call("F3", <<y>>)>>) : x \in SubArgs, y \in SubArgs}
         \cup {Node("DECLARATIVE", <<La, x, Node("IN", <<La, Call("F4", <<y, Call("F3", <<x>>)>>)>>)>>) : x \in SubArgs, y \in SubArgs}
\* nested calls of functions whose i-th locals have different typifications, the inner call sitting in the body of the outer binder
SeedNested2 == {Call("F5", <<x>>) : x \in SubArgs} \cup {Call("F6", <<x>>) : x \in {Glob("S1"), X1xX1}}
          \cup {Call("F5", <<Call("F3", <<x>>)>>) : x \in SubArgs} \cup {Call("F5", <<Call("F4", <<x, y>>)>>) : x \in SubArgs, y \in SubArgs}
          \cup {Call("F6", <<Call("F5", <<x>>)>>) : x \in SubArgs} \cup {Call("F6", <<Call("F5", <<Call("F3", <<x>>)>>)>>) : x \in SubArgs}
          \cup {Call("F5", <<Call("F6", <<x>>)>>) : x \in {Glob("S1"), X1xX1}} \cup {Call("F3", <<Call("F6", <<Call("F5", <<x>>)>>)>>) : x \in SubArgs}
          \cup {Call("F4", <<Call("F6", <<Call("F5", <<x>>)>>), Call("F6", <<Glob("S1")>>)>>) : x \in SubArgs}
\* the same name bound again in a sibling scope over a domain of another typification, used as only one of the two types allows
SibBodies == {Node("EQUAL", <<Node("CARD", <<La>>), IntLit(0)>>), Node("EQUAL", <<La, La>>), Node("IN", <<La, Glob("X1")>>), Node("SUBSET_OR_EQ", <<La, Glob("X1")>>),
              Node("EQUAL", <<Idx("SMALLPR", <<1>>, <<La>>), Idx("SMALLPR", <<2>>, <<La>>)>>), Node("IN", <<La, Glob("S1")>>)}
SibDoms == {Glob("X1"), Glob("S1"), Glob("S2"), Node("BOOLEAN", <<Glob("X1")>>), X1xX1}
SeedSibling == {Node(o, <<Node(q1, <<La, d1, Node("EQUAL", <<La, La>>)>>), Node(q2, <<La, d2, b>>)>>) :
                    o \in {"AND", "OR"}, q1 \in {"FORALL"}, q2 \in Quant, d1 \in SibDoms, d2 \in SibDoms, b \in SibBodies}
          \cup {Node("UNION", <<Node("DECLARATIVE", <<La, d1, Node("EQUAL", <<La, La>>)>>), Node("DECLARATIVE", <<La, d2, b>>)>>) : d1 \in SibDoms, d2 \in SibDoms, b \in SibBodies}
          \cup {Node("IMPERATIVE", <<La, Node("FORALL", <<La, d1, Node("EQUAL", <<La, La>>)>>), It(La, d2)>>) : d1 \in SibDoms, d2 \in SibDoms}
\* function definitions (typed as their body under the declared arguments; the declared argument list is reported)
Arg(n, d) == Node("ARG", <<Loc(n), d>>)
FDef(args, body) == Node("FUNCDEF", <<Node("ARGS", args), body>>)
BX1 == Node("BOOLEAN", <<Glob("X1")>>)
FuncBodiesA == {Node("UNION", <<La, Glob("X1")>>), Node("ENUM", <<La>>), La, Node("CARD", <<La>>), Idx("SMALLPR", <<1>>, <<La>>), Node("IN", <<La, Glob("X1")>>),
                Node("DECLARATIVE", <<Lb, La, Node("NOTEQUAL", <<Lb, Lb>>)>>), Node("UNION", <<La, BX1>>)}
FuncBodiesAB == {Node("UNION", <<La, Node("ENUM", <<Lb>>)>>), Node("IN", <<Lb, La>>), Node("TUPLE", <<La, Lb>>), Node("EQUAL", <<La, Lb>>), Node("UNION", <<La, Lb>>)}
SeedFunc == {FDef(<<Arg("a", d)>>, b) : d \in {Glob("X1"), BX1, X1xX1, Glob("S1"), Node("BOOLEAN", <<Rad("R1")>>), IntLit(1), Glob("D7")}, b \in FuncBodiesA}
       \cup {FDef(<<Arg("a", d1), Arg("b", d2)>>, b) : d1 \in {BX1, Node("BOOLEAN", <<Rad("R1")>>), Glob("S2")}, d2 \in {Glob("X1"), La, Rad("R1"), BX1, Glob("D7"), IntLit(1)}, b \in FuncBodiesAB}
       \cup {FDef(<<Arg("a", BX1), Arg("a", Glob("X1"))>>, La), FDef(<<Arg("a", BX1)>>, Node("FORALL", <<La, Glob("X1"), Node("EQUAL", <<La, La>>)>>))}
\* enumerations and tuples of three elements: the element types are merged one after the other (the empty set and integer
\* literals are the least specific), so the order of the elements must not matter
E3 == {Empty, Glob("X1"), Glob("C1"), IntLit(1), Glob("S2")}
T3 == {Node("TUPLE", <<x, y>>) : x \in {Empty, Glob("X1")}, y \in {Empty, Glob("C1")}}
SeedEnum3 == {Node("ENUM", <<x, y, z>>) : x \in E3, y \in E3, z \in E3} \cup {Node("ENUM", <<x, y, z>>) : x \in T3, y \in T3, z \in T3}
             \cup {Node("TUPLE", <<x, y, z>>) : x \in {Empty, Glob("X1")}, y \in {Empty, IntLit(1)}, z \in {Glob("C1"), Empty}}
\* projections with repeated and permuted indices, on stored relations and on lazily built products
SeedPr == {Idx(o, ix, <<x>>) : o \in {"BIGPR"}, ix \in {<<1, 1>>, <<2, 1>>, <<2, 1, 2>>, <<1, 1, 1>>, <<2, 2>>}, x \in {Glob("S1"), X1xX1, X1xC1, Node("DECART", <<Glob("C1"), Glob("X1")>>)}}
          \cup {Node("EQUAL", <<Idx("BIGPR", <<1, 1>>, <<X1xC1>>), Node("DECART", <<Glob("X1"), Glob("X1")>>)>>),
                Node("IN", <<Node("TUPLE", <<La, Lb>>), Idx("BIGPR", <<1, 1>>, <<X1xX1>>)>>)}
\* arithmetic at and beyond the 32-bit range of stored integers
BigInts == {0, 1, 46340, 46341, 65536, 2147483647}
SeedArith == {Node(o, <<IntLit(a), IntLit(b)>>) : o \in Arith, a \in BigInts, b \in BigInts}
             \cup {Node("EQUAL", <<Node("MULTIPLY", <<IntLit(65536), IntLit(65536)>>), IntLit(0)>>),
                   Node("GREATER", <<Node("PLUS", <<IntLit(2147483647), Node("CARD", <<Glob("X1")>>)>>), IntLit(0)>>),
                   Node("MINUS", <<Node("MINUS", <<IntLit(0), IntLit(2147483647)>>), IntLit(2)>>),
                   Node("MULTIPLY", <<Node("MINUS", <<IntLit(0), IntLit(65536)>>), IntLit(65536)>>)}
Seeds == UNION {SeedArith, SeedPr, SeedEnum3, SeedBindMix, SeedFilter, SeedRec, SeedImp, SeedBind, SeedCall, SeedScope, SeedAxiom, SeedLazy, SeedNested, SeedNested2, SeedSibling, SeedFunc}

\* value classes of the context: sets and structures with data are values, a function has the class of its body
GC0 == [n \in {"X1", "C1", "S1", "S2", "A1"} |-> "value"]
GC == [n \in DOMAIN GC0 \cup DOMAIN FD |-> IF n \in DOMAIN GC0 THEN GC0[n] ELSE VClass(FD[n].body, GC0, FD, {})]
NoLoc == [x \in {} |-> TAny]
NoVal == [x \in {} |-> 0]
Outcome(r, t) == IF r.ok THEN [ok |-> TRUE, v |-> EncU(r.v, t), why |-> ""] ELSE [ok |-> FALSE, v |-> 0, why |-> r.v]
Case(e) == LET t == TypeOf(e, G, F, NoLoc, FALSE) IN
  [e |-> e, ty |-> IF IsBad(t) THEN "BAD:" \o t.id ELSE TypeStr(t),
   isFunc |-> e.id = "FUNCDEF",
   args |-> IF IsBad(t) THEN <<>> ELSE LET a == ArgsOf(e, G, F) IN [k \in DOMAIN a |-> [name |-> a[k].name, type |-> TypeStr(a[k].type)]],
   vc |-> IF IsBad(t) THEN "" ELSE VClass(e, GC, FD, {}),
   vals  |-> IF IsBad(t) \/ e.id = "FUNCDEF" THEN <<>> ELSE [i \in 1..Len(Interps) |-> Outcome(Eval(e, Interps[i], FD, NoVal), t)],
   r0 |-> Render(e, 0), r1 |-> Render(e, 1), r2 |-> Render(e, 2),
   kvals |-> IF IsBad(t) \/ e.id = "FUNCDEF" THEN <<>> ELSE [i \in 1..Len(Interps) |-> Outcome(EvalK(e, Interps[i], FD, NoVal), t)]]

Init == /\ stage = 1
        /\ \/ c \in D0
           \/ c \in Seeds
           \/ \E o \in Un, x \in D0 : c = Node(o, <<x>>)
           \/ \E o \in {"BIGPR", "SMALLPR"}, ix \in Ixs0, x \in D0 \cup {Node("TUPLE", <<IntLit(1), Glob("X1")>>)} : c = Idx(o, ix, <<x>>)
           \/ \E x \in D0 : c = Node("ENUM", <<x>>)
           \/ \E o \in SetBinLike \cup Preds, x \in D0, y \in D0 : c = Node(o, <<x, y>>)
           \/ \E q \in Quant \cup {"DECLARATIVE"}, d \in D0, b \in A1log : c = Node(q, <<La, d, b>>)
\* (calls of F7 are not wrapped: F7[B(X1)] has 255 elements and one more power set is beyond what TLC can enumerate)
Next == /\ stage = 1 /\ stage' = 2 /\ WrapSet # "none" /\ c.id # "FUNCDEF" /\ ~(c.id = "CALL" /\ c.s = "F7")
        /\ IF IsLogic(c)
           THEN \/ c' = Node("NOT", <<c>>) /\ c.id \notin Quant \cup {"NOT"}
                \/ \E o \in LogBin, q \in SmallLog : c' = Node(o, <<c, q>>) \/ c' = Node(o, <<q, c>>)
           ELSE \/ \E o \in Un : c' = Node(o, <<c>>)
                \/ \E o \in {"BIGPR", "SMALLPR"}, ix \in Ixs : c' = Idx(o, ix, <<c>>)
                \/ c' = Node("ENUM", <<c>>)
                \/ \E o \in SetBinLike \cup Preds, x \in (IF WrapSet = "all" THEN D0 ELSE {Glob("X1"), Glob("S1"), Glob("S2")}) :
                        c' = Node(o, <<c, x>>) \/ c' = Node(o, <<x, c>>)
                \/ \E q \in Quant \cup {"DECLARATIVE"}, b \in A1log : c' = Node(q, <<La, c, b>>)
                \/ \E f \in {"F1", "F2", "F3", "P1"} : c' = Call(f, <<c>>) \/ c' = Call(f, <<c, Glob("X1")>>)
Spec == Init /\ [][Next]_<<c, stage>>
Emit == PrintT(<<"CASE", ToJson(Case(c))>>)

\* C02, model level: whatever the rules accept evaluates (strictly) to an error or to a value of the derived type,
\* and the kleene evaluation agrees with the strict one wherever the strict one is defined
Sound == LET t == TypeOf(c, G, F, NoLoc, FALSE) IN
  (~IsBad(t) /\ c.id # "FUNCDEF") => \A i \in 1..Len(Interps) :
     LET r == Eval(c, Interps[i], FD, NoVal)  k == EvalK(c, Interps[i], FD, NoVal) IN
     /\ r.ok => InDom(r.v, t, Interps[i])
     /\ r.ok => (k.ok /\ k.v = r.v)
     /\ k.ok => InDom(k.v, t, Interps[i])
=============================================================================
