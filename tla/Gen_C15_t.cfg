CONSTANTS NVals = 4
MaxHist = 4
SPECIFICATION Spec
INVARIANT OrderTheorem
CONSTRAINT Emit
