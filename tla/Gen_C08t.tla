------------------------------- MODULE Gen_C08t -----------------------------
(***************************************************************************)
(* C08 at text level: the translation functions every renaming goes        *)
(* through (rslang::TranslateRS on formal definitions, ManagedText::       *)
(* TranslateRaw on texts with references) replace each whole-identifier    *)
(* occurrence of a mapped name and change nothing else.                    *)
(* "rs" cases: an expression over names that are prefixes of each other,   *)
(* of different lengths, a local with the spelling of a global, a function *)
(* name; a map of one or two entries (length-changing and same-length      *)
(* replacements in either order, swaps, targets that are also sources).    *)
(* The expected text is the rendering of RenameTree(e, map).               *)
(* "text" cases: <= 3 atoms (plain words incl. multi-byte ones and words   *)
(* spelt like names, entity references with ASCII and multi-byte forms,    *)
(* collaboration references) and a map; expected: the same atoms with the  *)
(* entity names mapped.                                                    *)
(***************************************************************************)
EXTENDS RSTyping, RSSyntax, SequencesExt, Json
VARIABLES e, m, stage, kind
vars == <<e, m, stage, kind>>
CONSTANTS MaxAtoms

NamesP == {"X1", "X9", "X10", "X11", "D1"}
Keys == NamesP \cup {"F1"}
Targets == {"X1", "X8", "X10", "X100", "D2", "F2"}
G(n) == Glob(n)
Lx == Loc("x1")
Exprs == {Node(o, <<G(a), G(b)>>) : o \in {"UNION", "DECART"}, a \in NamesP, b \in NamesP}
    \cup {Node("UNION", <<Node("DECART", <<G(a), G(b)>>), G(c)>>) : a \in NamesP, b \in NamesP, c \in {"X9", "X1", "D1"}}
    \cup {Node("DECLARATIVE", <<Lx, G(a), Node("IN", <<Lx, G(b)>>)>>) : a \in NamesP, b \in NamesP}
    \cup {Call("F1", <<G(a), G(b)>>) : a \in NamesP, b \in {"X1", "X9"}}
Ref(n, f) == [k |-> "ref", s |-> n, f |-> f]
Plain(w) == [k |-> "plain", s |-> w, f |-> ""]
Atoms == {Plain("word"), Plain("X1"), Plain("слово"), Plain("@X1"),
          Ref("X1", "sing,nomn"), Ref("X10", "sing,nomn"), Ref("X9", "plur,gent"), Ref("X1", "nomn,мн"), Ref("D1", "sing,nomn"),
          [k |-> "collab", s |-> "-1", f |-> "слово"]}
Texts == UNION {[1..n -> Atoms] : n \in 1..MaxAtoms}
Singles == {k :> v : k \in Keys, v \in Targets} \ {k :> k : k \in Keys}
Doubles == {f1 @@ f2 : f1 \in Singles, f2 \in Singles}
Maps == Singles \cup {f \in Doubles : \A k \in DOMAIN f : f[k] # k}

Init == stage = 0 /\ m = <<>> /\ ((kind = "rs" /\ e \in Exprs) \/ (kind = "text" /\ e \in Texts))
Next == stage = 0 /\ stage' = 1 /\ e' = e /\ kind' = kind /\ m' \in Maps
Spec == Init /\ [][Next]_vars

Pairs(f) == LET ks == SetToSeq(DOMAIN f) IN [i \in DOMAIN ks |-> <<ks[i], f[ks[i]]>>]
MapAtom(a) == IF a.k = "ref" /\ a.s \in DOMAIN m THEN [a EXCEPT !.s = m[a.s]] ELSE a
CaseOf ==
  IF kind = "rs"
  THEN [kind |-> "rs", toks |-> Render(e, 0).t, expect |-> Render(RenameTree(e, m), 0).t, map |-> Pairs(m),
        count |-> 0]
  ELSE [kind |-> "text", atoms |-> e, expect |-> [i \in DOMAIN e |-> MapAtom(e[i])], map |-> Pairs(m), count |-> 0]
Emit == stage = 1 => PrintT(<<"CASE", ToJson(CaseOf)>>)
=============================================================================
