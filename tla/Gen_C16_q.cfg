CONSTANTS MaxDepth = 2
MaxArity = 3
SubsetCap = 4
Cells = {0, 1, 2, 3, 10000000}
MaxRows = 2
MaxCols = 3
MutRows = 3
SPECIFICATION Spec
INVARIANT RoundTripTheorem
CONSTRAINT Emit
