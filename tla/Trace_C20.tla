------------------------------ MODULE Trace_C20 -----------------------------
(* Code -> spec for C20: each logged call of the string utilities / interval algebra on  *)
(* randomly drawn (long strings, wide ranges) inputs must agree with Strings.tla.         *)
EXTENDS Strings, TLC, Json, IOUtils
VARIABLES l, seen
TraceLog == ndJsonDeserialize(IOEnv.TRACE)
NoObs == [e |-> "none"]
TInit == l = 1 /\ seen = NoObs
TNext == l <= Len(TraceLog) /\ l' = l + 1 /\ seen' = TraceLog[l]
TSpec == TInit /\ [][TNext]_<<l, seen>>

R(x) == Rng(x.s, x.f)
OptR(x) == IF x = None THEN [none |-> TRUE, s |-> 0, f |-> 0] ELSE [none |-> FALSE, s |-> x.s, f |-> x.f]
StrOK(ev) ==
  /\ ev.size = Len(ev.cps) /\ ev.bytes = ByteLen(ev.cps)
  /\ ev.iter = Iteration(ev.cps)
  /\ ev.substr = Substr(ev.cps, ev.a, ev.b)
  /\ ev.split44 = SplitBy(ev.cps, 44)
  /\ ev.trim = Trim(ev.cps)
  /\ ev.isint = IsInteger(ev.cps)
RngOK(ev) ==
  LET a == R(ev.a) b == R(ev.b) IN
  /\ ev.before = Before(a, b) /\ ev.after = After(a, b) /\ ev.meets = Meets(a, b)
  /\ ev.starts = Starts(a, b) /\ ev.finishes = Finishes(a, b) /\ ev.during = During(a, b) /\ ev.equal = Equal(a, b)
  /\ (Proper(a) /\ Proper(b)) => /\ ev.overlaps = Overlaps(a, b) /\ ev.contains = ContainsRng(a, b)
                                 /\ ev.shares = SharesBorder(a, b)
  /\ ev.containsPos = ContainsPos(a, ev.p)
  /\ ev.isect = OptR(Intersect(a, b))
  /\ R(ev.merge) = Merge(<<a, b, R(ev.c)>>)
PropC20 == CASE seen.e = "Str" -> StrOK(seen) [] seen.e = "Rng" -> RngOK(seen) [] seen.e = "Fault" -> FALSE   \* the recorded execution crashed / threw / hung
             [] OTHER -> TRUE
TraceAccepted == TLCGet("stats").diameter - 1 = Len(TraceLog)
=============================================================================
