------------------------------- MODULE Gen_Ops ------------------------------
(***************************************************************************)
(* Spec -> code generator for the extraction operations (C13): every       *)
(* schema reachable by at most MaxLen insertions / erasures from the "ops" *)
(* pool of Gen_Schema (definitions mentioning earlier, later, erased and    *)
(* never-existing constituents, an ill-typed one, an axiom), and for every *)
(* selection of its constituents (plus one with a foreign identifier) the  *)
(* predicted basis and maximal part: defined?, members in list order, new  *)
(* aliases, renamed definitions.  The model-level theorems of SchemaOps    *)
(* are checked as invariants on every reachable content.                   *)
(***************************************************************************)
EXTENDS Gen_Schema, SchemaOps

Foreign == MaxCst + 5
Selections == (SUBSET Ids \ {{}}) \cup (IF Ids = {} THEN {} ELSE {{Foreign, CHOOSE u \in Ids : TRUE}})
ResultOf(R) ==
  LET ex == Extract(order, cst, R) IN
  [members |-> ex.order,
   items |-> [i \in DOMAIN ex.order |-> LET u == ex.order[i] IN [uid |-> u, alias |-> ex.cst[u].alias, d |-> Toks(ex.cst[u].def), from |-> cst[u].alias]],
   captures |-> Captures(cst, R, ex)]
NoResult == [members |-> <<>>, items |-> <<>>, captures |-> FALSE]
OpsObs ==
  LET sels == SetToSeq(Selections) IN
  [i \in DOMAIN sels |->
     LET S == sels[i]
         bd == BasisDefined(cst, S)
         md == MaxPartDefined(cst, S)
     IN [sel |-> SetToSeq(S),
         basisDefined |-> bd, basis |-> IF bd THEN ResultOf(Basis(cst, S)) ELSE NoResult,
         maxDefined |-> md, maxpart |-> IF md THEN ResultOf(MaxPart(cst, S)) ELSE NoResult]]
EmitOps == PrintT(<<"CASE", ToJson([hist |-> hist, obs |-> Obs, ops |-> OpsObs])>>)

BasisTheorem == BasisIsLeastClosed(cst)
MaxPartTheorem == MaxPartIsLeast(order, cst)
AnalysisTheorem == ExtractionKeepsAnalysis(order, cst)
=============================================================================
