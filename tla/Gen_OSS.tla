------------------------------- MODULE Gen_OSS ------------------------------
(***************************************************************************)
(* Spec -> code generator for C19: every history of at most MaxLen calls   *)
(* on an operation schema and its environment, starting from a preset      *)
(*   "empty"   nothing (structure: insert, erase, connect, define, run)    *)
(*   "grid"    nothing; layout only (insert, erase, shift, load position)  *)
(*   "chain"   b1 b2 b3, l1 = merge(b1,b2), l2 = merge(l1,b3), all run     *)
(*   "diamond" b1 b2 b3, l1 = merge(b1,b2), l2 = merge(b2,b3),             *)
(*             top = merge(l1,l2), all run                                 *)
(*   "synt"    b1 b2, l1 = synt(b1,b2; X1=X1) run, l2 = merge(l1,b1) run   *)
(*   "stale"   chain, then b3 changed and announced, l2's source read-only *)
(*   "lchain"  labelled base sets; l2 = synt(l1, b3) equates a base set of *)
(*             l1 that comes from l1's second operand with b3's            *)
(*   "ldiamond" labelled diamond (copies arriving twice are merged)        *)
(* The preset itself is a history (prefix) built with the same actions.    *)
(* Structure and Fresh (C19 on the model) are TLC invariants.              *)
(* Text edits are offered only where no constituent reaches an operation   *)
(* along two paths (equal non-empty duplicates would be merged, which the  *)
(* content abstraction n/u/e does not count).                              *)
(***************************************************************************)
EXTENDS OSS, Json
CONSTANTS MaxLen, MaxPict, Preset
VARIABLES oss, hist, nextPict, nextSrc
vars == <<oss, hist, nextPict, nextSrc>>

IB(new) == [Op("InsertBase") EXCEPT !.new = new]
IO(new, a, b) == [Op("InsertOperation") EXCEPT !.new = new, !.a = a, !.b = b]
CN(p, s, n) == [Op("ConnectNew") EXCEPT !.p = p, !.s = s, !.n = n]
IF_(p, t, tb) == [Op("InitFor") EXCEPT !.p = p, !.type = t, !.table = tb]
EX(p) == [Op("Execute") EXCEPT !.p = p]
ChainPrefix == <<IB(1), IB(2), IB(3), CN(1, 101, 1), CN(2, 102, 1), CN(3, 103, 1), IO(4, 1, 2), IO(5, 4, 3),
                 IF_(4, "merge", -1), IF_(5, "merge", -1), EX(4), EX(5)>>
Prefix ==
  CASE Preset \in {"empty", "grid"} -> <<>>
    [] Preset = "chain" -> <<IB(1), IB(2), IB(3), CN(1, 101, 1), CN(2, 102, 1), CN(3, 103, 1), IO(4, 1, 2), IO(5, 4, 3),
                             IF_(4, "merge", -1), IF_(5, "merge", -1), EX(4), EX(5)>>
    [] Preset = "diamond" -> <<IB(1), IB(2), IB(3), CN(1, 101, 1), CN(2, 102, 2), CN(3, 103, 1), IO(4, 1, 2), IO(5, 2, 3), IO(6, 4, 5),
                               IF_(4, "merge", -1), IF_(5, "merge", -1), IF_(6, "merge", -1), EX(4), EX(5), EX(6)>>
    \* "stale": the chain with b3 changed and announced (l2 outdated) and l2's result source read-only
    [] Preset = "stale" -> ChainPrefix \o <<[Op("Edit") EXCEPT !.p = 3, !.kind = "addBase"], [Op("Save") EXCEPT !.p = 3], [Op("Lock") EXCEPT !.p = 5]>>
    \* labelled base sets: l2 equates the LAST base set of l1 (it comes from b2, so its identifier is re-issued at every execution) with b3's
    [] Preset = "lchain" -> <<IB(1), IB(2), IB(3), CN(1, 101, 2), CN(2, 102, 2), CN(3, 103, 1), IO(4, 1, 2), IO(5, 4, 3),
                              IF_(4, "merge", -1), EX(4), IF_(5, "synt", 2), EX(5)>>
    [] Preset = "ldiamond" -> <<IB(1), IB(2), IB(3), CN(1, 101, 1), CN(2, 102, 2), CN(3, 103, 1), IO(4, 1, 2), IO(5, 2, 3), IO(6, 4, 5),
                                IF_(4, "merge", -1), IF_(5, "merge", -1), IF_(6, "merge", -1), EX(4), EX(5), EX(6)>>
    [] Preset = "synt" -> <<IB(1), IB(2), CN(1, 101, 2), CN(2, 102, 1), IO(3, 1, 2), IF_(3, "synt", 1), EX(3), IO(4, 3, 1), IF_(4, "merge", -1), EX(4)>>
PrefixPicts == CASE Preset = "lchain" -> 5 [] Preset = "ldiamond" -> 6 [] Preset = "grid" -> 0 [] Preset = "stale" -> 5 [] Preset = "empty" -> 0 [] Preset = "chain" -> 5 [] Preset = "diamond" -> 6 [] Preset = "synt" -> 4
PrefixSrcs == CASE Preset = "lchain" -> 103 [] Preset = "ldiamond" -> 103 [] Preset = "grid" -> 100 [] Preset = "stale" -> 103 [] Preset = "empty" -> 100 [] Preset = "chain" -> 103 [] Preset = "diamond" -> 103 [] Preset = "synt" -> 102

IsLabelled == Preset \in {"lchain", "ldiamond"}
Init == oss = ApplyAll(IF IsLabelled THEN EmptyLabelled ELSE EmptyOSS, Prefix, 1) /\ hist = <<>> /\ nextPict = PrefixPicts + 1 /\ nextSrc = PrefixSrcs + 1
Step(c) == oss' = Apply(oss, c) /\ hist' = Append(hist, c)
BothBases(p) == oss.par[oss.par[p][1]] = <<>> /\ oss.par[oss.par[p][2]] = <<>>
Structural == Preset \in {"empty", "grid"}
GridOnly == Preset = "grid"          \* layout only: insert, erase, shift, load position
Next ==
  /\ Len(hist) < MaxLen
  /\ \/ /\ Structural /\ Cardinality(Picts(oss)) < MaxPict
        /\ Step(IB(nextPict)) /\ nextPict' = nextPict + 1 /\ UNCHANGED nextSrc
     \/ /\ Structural /\ Cardinality(Picts(oss)) < MaxPict
        /\ \E a \in Picts(oss) \cup {9}, b \in Picts(oss) : Step(IO(nextPict, a, b))
        /\ nextPict' = nextPict + 1 /\ UNCHANGED nextSrc
     \/ /\ \E p \in Picts(oss) \cup {9} : Step([Op("Erase") EXCEPT !.p = p]) /\ UNCHANGED <<nextPict, nextSrc>>
     \/ /\ GridOnly /\ \E p \in Picts(oss) \cup {9}, k \in {-1, 1, 2} : Step([Op("ShiftPict") EXCEPT !.p = p, !.n = k]) /\ UNCHANGED <<nextPict, nextSrc>>
     \/ /\ GridOnly /\ \E p \in Picts(oss), r \in 0..1, cc \in 0..2 : CanLoadPosition(oss, p, <<r, cc>>) /\ Step([Op("LoadPosition") EXCEPT !.p = p, !.a = r, !.b = cc])
        /\ UNCHANGED <<nextPict, nextSrc>>
     \/ /\ ~GridOnly /\ \E p \in {x \in Picts(oss) : ~IsOp(oss, x)}, n0 \in (IF Structural THEN {1} ELSE {1, 2}) : Step(CN(p, nextSrc, n0))
        /\ nextSrc' = nextSrc + 1 /\ UNCHANGED nextPict
     \/ /\ \E p \in Picts(oss), k \in {"addBase", "removeBase", "removeFirst", "text", "userTerm", "userPair"} : (k = "removeFirst" => IsLabelled) /\ (k = "userPair" => (Preset = "chain" \/ (Preset = "diamond" /\ MaxLen <= 3))) /\
             ~GridOnly /\ CanEdit(oss, p, k) /\ (k = "text" => Preset \in {"empty", "chain"} /\ (Structural \/ p \in {1, 4})) /\ Step([Op("Edit") EXCEPT !.p = p, !.kind = k])
        /\ UNCHANGED <<nextPict, nextSrc>>
     \/ /\ \E p \in Picts(oss) : ~GridOnly /\ oss.hand[p].linked /\ Step([Op("Close") EXCEPT !.p = p]) /\ UNCHANGED <<nextPict, nextSrc>>
     \/ /\ \E p \in Picts(oss) : ~GridOnly /\ (MaxLen <= 3 \/ Preset \in {"chain", "stale"}) /\ oss.hand[p].linked /\ ~DataOf(oss, p).saved /\ Step([Op("Drop") EXCEPT !.p = p]) /\ UNCHANGED <<nextPict, nextSrc>>
     \/ /\ \E p \in Picts(oss) : ~GridOnly /\ HasData(oss, p) /\ ~oss.hand[p].linked /\ Step([Op("Open") EXCEPT !.p = p]) /\ UNCHANGED <<nextPict, nextSrc>>
     \/ /\ \E p \in Picts(oss) : ~GridOnly /\ HasData(oss, p) /\ Step([Op("Save") EXCEPT !.p = p]) /\ UNCHANGED <<nextPict, nextSrc>>
     \/ /\ \E p \in DOMAIN oss.oper, t \in {<<"merge", -1>>, <<"synt", 0>>, <<"synt", 1>>, <<"synt", 2>>, <<"synt", -1>>, <<"merge", 0>>} :
             ~GridOnly /\ ~(HasData(oss, p) /\ NamedByChildTable(oss, p)) /\ (t[2] = 1 => (BothBases(p) \/ IsLabelled)) /\ (t[2] = 2 => IsLabelled) /\ (t \in {<<"synt", -1>>, <<"merge", 0>>} => Structural) /\ Step(IF_(p, t[1], t[2]))
        /\ UNCHANGED <<nextPict, nextSrc>>
     \/ /\ \E p \in DOMAIN oss.oper : HasData(oss, p) /\ ~DataOf(oss, p).locked /\ Preset \in {"chain", "stale"}
             /\ Step([Op("Lock") EXCEPT !.p = p]) /\ UNCHANGED <<nextPict, nextSrc>>
     \/ /\ \E p \in DOMAIN oss.oper : ~GridOnly /\ Step(EX(p)) /\ UNCHANGED <<nextPict, nextSrc>>
     \/ /\ ~GridOnly /\ DOMAIN oss.oper # {} /\ Step(Op("ExecuteAll")) /\ UNCHANGED <<nextPict, nextSrc>>
     \* save the document, close everything, load it with the items rotated by n, re-open the sources
     \/ /\ Picts(oss) # {} /\ AllSaved(oss) /\ (IF hist = <<>> THEN TRUE ELSE hist[Len(hist)].op # "Reload")
        \* n: items rotated by n mod 3; from 3 on the connections are interleaved as well
        /\ \E n \in {0, 1, 2, 4} : Step([Op("Reload") EXCEPT !.n = n]) /\ UNCHANGED <<nextPict, nextSrc>>
Spec == Init /\ [][Next]_vars

\* ---- what is emitted: the calls (prefix and history) and the predicted state after the last call and after a final SaveAll
Emit == PrintT(<<"CASE", ToJson([labelled |-> IsLabelled, prefix |-> Prefix, hist |-> hist, now |-> View(oss), saved |-> View(SaveAll(oss))])>>)

StructureInv == Structure(oss)
FreshInv == Fresh(oss) /\ Fresh(SaveAll(oss))
=============================================================================
