--------------------------------- MODULE OSS --------------------------------
(***************************************************************************)
(* The operation schema (ccl::oss::OSSchema): pictograms, their parents,   *)
(* source handles and operation handles, and the externally owned sources  *)
(* (the source manager is the environment).  C19.                          *)
(*                                                                         *)
(* state  oss = [par, hand, oper, store, dnd]                              *)
(*   par[p]   <<>> for a base pictogram, <<p1, p2>> for an operation       *)
(*   hand[p]  [name, hash, linked] : source name (0 = none), the core hash *)
(*            last seen, whether the source object is attached             *)
(*   oper[p]  [type, table, broken, outdated] for operation pictograms     *)
(*   store[s] [b, u, e, txt, saved, ...] : the source's schema, abstracted *)
(*            to the sequence b of its base sets (each an origin token     *)
(*            <<source, k>>: the k-th base set ever created in that        *)
(*            source), the sets u of inherited and e of own user-added     *)
(*            terms (each identified by the pictogram it was added to; a   *)
(*            term arriving along two paths is one constituent: equal      *)
(*            non-empty definitions are merged), a text revision; saved =  *)
(*            no change is                                                 *)
(*            waiting to be announced; locked = the environment refuses    *)
(*            to write new data into it                                    *)
(* The formal content (what the core hash covers: aliases + definitions)   *)
(* is <<number of base sets, u, e>>; which base sets they are matters for  *)
(* equation tables and translations, not for the hash.                     *)
(* labelled = every base set carries a unique term text (its token): equal *)
(* copies that reach an operation along two paths are then merged by       *)
(* DeleteDuplicates; unlabelled (empty) base sets never are.               *)
(*   cell[p]  <<row, column>> of the pictogram on the layout grid          *)
(***************************************************************************)
EXTENDS Integers, Sequences, FiniteSets, TLC

NoHash == <<>>
EmptyHandle == [name |-> 0, hash |-> NoHash, linked |-> FALSE]
\* table: -1 no options object, 0 an empty equation table, 1 the table { first base set of parent 1 = first base set of parent 2 }
\* tkey: the sources whose first base sets the table names (identifiers of other sources' constituents mean nothing)
\*        2 the table { last base set of parent 1 = first base set of parent 2 }
NoTok == <<0, 0>>
NewOper == [type |-> "tba", table |-> -1, tkey |-> <<NoTok, NoTok>>, broken |-> FALSE, outdated |-> FALSE]
Pairs(t) == IF t >= 1 THEN 1 ELSE 0
\* gitems: the pictograms in the order the graph facet first heard of them (the order ChildrenOf and ExecuteAll go by)
EmptyOSS == [par |-> <<>>, hand |-> <<>>, oper |-> <<>>, store |-> <<>>, dnd |-> FALSE, cell |-> <<>>, labelled |-> FALSE, gitems |-> <<>>]
EmptyLabelled == [EmptyOSS EXCEPT !.labelled = TRUE]

Register(q, x) == IF \E i \in DOMAIN q : q[i] = x THEN q ELSE Append(q, x)

\* ---- layout grid (ossGridFacet)
Occupied(S, pos) == \E q \in DOMAIN S.cell : S.cell[q] = pos
\* ClosestFreePos: the first free column at or to the right of the start (the search never moves left)
FreeFrom(S, row, col) == <<row, CHOOSE c \in col..(col + Cardinality(DOMAIN S.cell) + 1) : ~Occupied(S, <<row, c>>) /\ \A d \in col..(c - 1) : Occupied(S, <<row, d>>)>>
MaxOf2(a, b) == IF a >= b THEN a ELSE b
\* ChildPosFor: one row below the lower parent, centred between the parents' effective columns (column + row/2), rounded half up, not left of 0
ChildPos(S, a, b) ==
  LET r1 == S.cell[a][1]  c1 == S.cell[a][2]  r2 == S.cell[b][1]  c2 == S.cell[b][2]
      row == MaxOf2(r1, r2) + 1
      x2 == 2 * (c1 + c2) + (r1 + r2) - 2 * row          \* twice (eff1 + eff2 - row)
  IN FreeFrom(S, row, IF x2 < 0 THEN 0 ELSE (x2 + 2) \div 4)

Picts(S) == DOMAIN S.par
IsOp(S, p) == p \in DOMAIN S.oper
ChildrenOf(S, p) == {c \in Picts(S) : \E i \in DOMAIN S.par[c] : S.par[c][i] = p}
\* ax: the alias numbers of the base sets (X1, X2, ... in a result; in an edited source the numbers its base sets were given)
Core(S, s) == <<{S.store[s].ax[i] : i \in DOMAIN S.store[s].ax}, S.store[s].u, S.store[s].e>>
SmallestFree(q) == CHOOSE k \in 1..(Len(q) + 1) : ~(\E i \in DOMAIN q : q[i] = k) /\ \A j \in 1..(k - 1) : \E i \in DOMAIN q : q[i] = j
InSeq(x, q) == \E i \in DOMAIN q : q[i] = x
HasData(S, p) == S.hand[p].name # 0
DataOf(S, p) == S.store[S.hand[p].name]
\* ascending sequence of a finite set of integers
RECURSIVE SortedSeq(_)
SortedSeq(X) == IF X = {} THEN <<>> ELSE LET m == CHOOSE x \in X : \A y \in X : x <= y IN <<m>> \o SortedSeq(X \ {m})

\* the sources a table written now would name (a table written while a parent has no data names nothing that exists)
TKey(S, p, table) ==
  LET p1 == S.par[p][1]  p2 == S.par[p][2] IN
  IF HasData(S, p1) /\ HasData(S, p2) /\ DataOf(S, p1).b # <<>> /\ DataOf(S, p2).b # <<>>
  THEN <<IF table = 2 THEN DataOf(S, p1).b[Len(DataOf(S, p1).b)] ELSE DataOf(S, p1).b[1], DataOf(S, p2).b[1]>>
  ELSE <<NoTok, NoTok>>
\* ---- what the operation's check computes (RSSProcessor::CheckCall on the parents' current data)
ComputeBroken(S, c) ==
  LET o == S.oper[c]  p1 == S.par[c][1]  p2 == S.par[c][2] IN
  ~ ( /\ o.type \in {"merge", "synt"}
      /\ HasData(S, p1) /\ HasData(S, p2)
      /\ (o.type = "merge" => o.table <= 0)
      /\ (o.type = "synt" /\ o.table >= 1) => (/\ o.tkey # <<NoTok, NoTok>>        \* both named base sets still exist in the parents
                                                /\ InSeq(o.tkey[1], DataOf(S, p1).b) /\ InSeq(o.tkey[2], DataOf(S, p2).b)) )

\* ---- announcing pending changes of a source (SaveState -> OnSourceChange -> UpdateOnSrcChange -> UpdateHashes -> OnCoreChange)
RECURSIVE Sync(_, _), OnCoreChange(_, _), CheckOp(_, _), MarkChildren(_, _, _), Reopen(_, _)
Sync(S, q) ==
  IF ~S.hand[q].linked \/ S.store[S.hand[q].name].saved THEN S
  ELSE LET s == S.hand[q].name
           S1 == [S EXCEPT !.store[s].saved = TRUE]
           new == Core(S1, s)
           S2 == [S1 EXCEPT !.hand[q].hash = new]
       IN IF S.hand[q].hash # new /\ ~S.dnd THEN OnCoreChange(S2, q) ELSE S2
\* every child is re-checked and marked outdated
MarkChildren(S, cs, i) == IF i > Len(cs) THEN S
                          ELSE LET S1 == CheckOp(S, cs[i]) IN MarkChildren([S1 EXCEPT !.oper[cs[i]].outdated = TRUE], cs, i + 1)
ChildSeq(S, q) == SelectSeq(S.gitems, LAMBDA c : c \in ChildrenOf(S, q))
OnCoreChange(S, q) == MarkChildren(S, ChildSeq(S, q), 1)
\* DataFor -> OpenSrc: a source that was closed is opened again and re-connected (nothing is imported); what the handle missed
\* while the source was closed shows as a difference of the hash
Reopen(S, q) ==
  IF ~HasData(S, q) \/ S.hand[q].linked THEN S
  ELSE LET new == Core(S, S.hand[q].name)
           S1 == [S EXCEPT !.hand[q].linked = TRUE, !.hand[q].hash = new]
       IN IF S.hand[q].hash # new /\ ~S.dnd THEN OnCoreChange(S1, q) ELSE S1
\* CallFor: each parent's pending change is announced and its data fetched (which re-opens a closed source), in parent order
CheckOp(S, c) ==
  LET S1 == Reopen(Sync(S, S.par[c][1]), S.par[c][1])
      S2 == Reopen(Sync(S1, S.par[c][2]), S.par[c][2])
  IN [S2 EXCEPT !.oper[c].broken = ComputeBroken(S2, c)]

\* ---- status as reported (ossOperationsFacet::StatusOf)
StatusOf(S, p) ==
  IF ~IsOp(S, p) THEN "undefined"
  ELSE IF S.oper[p].type = "tba" THEN "undefined"
  ELSE IF S.oper[p].broken THEN "broken"
  ELSE IF HasData(S, p) THEN (IF S.oper[p].outdated THEN "outdated" ELSE "done")
  ELSE "defined"

\* ---------------------------------------------------------------- editing the schema of pictograms
InsertBase(S, new) == [S EXCEPT !.par = (new :> <<>>) @@ S.par, !.hand = (new :> EmptyHandle) @@ S.hand, !.cell = (new :> FreeFrom(S, 0, 0)) @@ S.cell]
CanInsertOperation(S, a, b) == a # b /\ a \in Picts(S) /\ b \in Picts(S)
InsertOperation(S, new, a, b) ==
  IF ~CanInsertOperation(S, a, b) THEN S
  ELSE [S EXCEPT !.par = (new :> <<a, b>>) @@ S.par, !.hand = (new :> EmptyHandle) @@ S.hand, !.oper = (new :> NewOper) @@ S.oper,
                 !.cell = (new :> ChildPos(S, a, b)) @@ S.cell,
                 !.gitems = Register(Register(Register(S.gitems, a), b), new)]      \* the parents are registered before the new item
CanErase(S, p) == p \in Picts(S) /\ ChildrenOf(S, p) = {}
Erase(S, p) ==
  IF ~CanErase(S, p) THEN S
  ELSE LET S0 == Sync(S, p) IN       \* Discard saves the state of the attached source first
       [S0 EXCEPT !.par = [x \in DOMAIN S0.par \ {p} |-> S0.par[x]], !.hand = [x \in DOMAIN S0.hand \ {p} |-> S0.hand[x]],
                  !.oper = [x \in DOMAIN S0.oper \ {p} |-> S0.oper[x]], !.cell = [x \in DOMAIN S0.cell \ {p} |-> S0.cell[x]],
                  !.gitems = SelectSeq(S0.gitems, LAMBDA x : x # p)]
\* the user moves a pictogram along its row; an occupied target cell swaps its occupant into the freed cell
ShiftPict(S, p, k) ==
  IF p \notin Picts(S) \/ k = 0 \/ S.cell[p][2] + k < 0 THEN S
  ELSE LET old == S.cell[p]  new == <<old[1], old[2] + k>> IN
       IF ~Occupied(S, new) THEN [S EXCEPT !.cell[p] = new]
       ELSE LET q == CHOOSE x \in DOMAIN S.cell : S.cell[x] = new IN [S EXCEPT !.cell[p] = new, !.cell[q] = old]
\* a loader puts a pictogram on a cell that is free (or its own)
CanLoadPosition(S, p, pos) == p \in Picts(S) /\ (~Occupied(S, pos) \/ S.cell[p] = pos)
LoadPosition(S, p, pos) == IF CanLoadPosition(S, p, pos) THEN [S EXCEPT !.cell[p] = pos] ELSE S

\* ---------------------------------------------------------------- sources (the environment)
\* a new source with n0 base sets is created by the environment and the pictogram is connected to it (ConnectPict2Src)
ConnectNew(S, p, s, n0) ==
  IF p \notin Picts(S) THEN S
  ELSE LET S0 == Sync(S, p)          \* a previously attached source is saved and closed
           S1 == [S0 EXCEPT !.store = (s :> [b |-> [k \in 1..n0 |-> <<s, k>>], ax |-> [k \in 1..n0 |-> k], nextk |-> n0 + 1, u |-> {}, e |-> {}, txt |-> 0, saved |-> TRUE, locked |-> FALSE]) @@ S0.store,
                            !.hand[p] = [name |-> s, hash |-> S0.hand[p].hash, linked |-> TRUE]]
           new == Core(S1, s)
           S2 == [S1 EXCEPT !.hand[p].hash = new]
       IN IF S0.hand[p].hash # new THEN OnCoreChange(S2, p) ELSE S2
\* the user edits the schema held by the source of p; nothing is announced yet
CanEdit(S, p, kind) ==
  /\ p \in Picts(S) /\ HasData(S, p)                  \* the source may be closed: it is edited all the same (elsewhere)
  /\ CASE kind = "addBase" -> ~IsOp(S, p) /\ Len(DataOf(S, p).b) < 3
       [] kind = "removeBase" -> ~IsOp(S, p) /\ Len(DataOf(S, p).b) >= 2
       [] kind = "removeFirst" -> ~IsOp(S, p) /\ Len(DataOf(S, p).b) >= 2
       [] kind = "text" -> Len(DataOf(S, p).b) >= 1 /\ ~S.labelled
       [] kind = "userTerm" -> IsOp(S, p) /\ DataOf(S, p).e = {} /\ Len(DataOf(S, p).b) >= 1
       [] kind = "userPair" -> IsOp(S, p) /\ DataOf(S, p).e = {} /\ Len(DataOf(S, p).b) >= 1
Edit(S, p, kind) ==
  LET s == S.hand[p].name IN
  CASE kind = "addBase" -> [S EXCEPT !.store[s].b = Append(@, <<s, S.store[s].nextk>>), !.store[s].ax = Append(@, SmallestFree(@)),
                                     !.store[s].nextk = @ + 1, !.store[s].saved = FALSE]
    [] kind = "removeBase" -> [S EXCEPT !.store[s].b = SubSeq(@, 1, Len(@) - 1), !.store[s].ax = SubSeq(@, 1, Len(@) - 1), !.store[s].saved = FALSE]
    [] kind = "removeFirst" -> [S EXCEPT !.store[s].b = Tail(@), !.store[s].ax = Tail(@), !.store[s].saved = FALSE]
    [] kind = "text" -> [S EXCEPT !.store[s].txt = @ + 1, !.store[s].saved = FALSE]
    [] kind = "userTerm" -> [S EXCEPT !.store[s].e = {p}, !.store[s].saved = FALSE]
    \* two additions, the first of which (in list order) is defined as the second: a reference between the user's own terms
    [] kind = "userPair" -> [S EXCEPT !.store[s].e = {p, p + 50}, !.store[s].saved = FALSE]
\* the environment makes the source of p read-only
Lock(S, p) == IF p \in Picts(S) /\ HasData(S, p) THEN [S EXCEPT !.store[S.hand[p].name].locked = TRUE] ELSE S
\* the source manager announces the pending change of p's source
\* (for a closed source nobody listens: the change is simply saved)
Save(S, p) == IF p \notin Picts(S) \/ ~HasData(S, p) THEN S
              ELSE IF S.hand[p].linked THEN Sync(S, p) ELSE [S EXCEPT !.store[S.hand[p].name].saved = TRUE]
\* the source manager closes the source of p: its state is announced a last time, then the handle keeps only name and hash
CloseSrc(S, p) ==
  IF p \notin Picts(S) \/ ~S.hand[p].linked THEN S
  ELSE LET s == S.hand[p].name
           new == Core(S, s)
           S1 == [S EXCEPT !.hand[p].hash = new]
           S2 == IF S.hand[p].hash # new /\ ~S.dnd THEN OnCoreChange(S1, p) ELSE S1
       IN [S2 EXCEPT !.hand[p].linked = FALSE, !.store[s].saved = TRUE]
\* the environment closes the source without announcing its pending change (SrcClosed only): the handle keeps the hash it saw last,
\* the environment forgets that anything was pending; the change is noticed when the source is opened again
DropSrc(S, p) ==
  IF p \notin Picts(S) \/ ~S.hand[p].linked THEN S
  ELSE [S EXCEPT !.hand[p].linked = FALSE, !.store[S.hand[p].name].saved = TRUE]
\* the source manager opens a closed source again: the schema imports it into the pictogram whose handle names it
OpenSrc(S, p) ==
  IF p \notin Picts(S) \/ ~HasData(S, p) \/ S.hand[p].linked THEN S
  ELSE Reopen([S EXCEPT !.store[S.hand[p].name].saved = TRUE], p)

\* the document is saved, the schema object and its sources are closed, and the document is loaded again (items in any order),
\* the sources are re-opened on demand: nothing the schema reports may change.  Only taken when nothing is pending.
\* The graph facet registers pictograms in the order the loaded connections mention them (child, then parent): n < 3 keeps
\* the saved order (every item with its parents); from 3 on all first parents come before all second parents.
ConnectionsOf(S) == LET ops == SelectSeq(S.gitems, LAMBDA x : IsOp(S, x))
                        RECURSIVE C(_, _)
                        C(i, k) == IF i > Len(ops) THEN <<>> ELSE <<<<ops[i], S.par[ops[i]][k]>>>> \o C(i + 1, k)
                        RECURSIVE Both(_)
                        Both(i) == IF i > Len(ops) THEN <<>> ELSE <<<<ops[i], S.par[ops[i]][1]>>, <<ops[i], S.par[ops[i]][2]>>>> \o Both(i + 1)
                    IN [grouped |-> Both(1), interleaved |-> C(1, 1) \o C(1, 2)]
RECURSIVE RegisterAll(_, _, _)
RegisterAll(cs, i, acc) == IF i > Len(cs) THEN acc ELSE RegisterAll(cs, i + 1, Register(Register(acc, cs[i][1]), cs[i][2]))
Reload(S, n) == [S EXCEPT !.gitems = RegisterAll(IF n >= 3 THEN ConnectionsOf(S).interleaved ELSE ConnectionsOf(S).grouped, 1, <<>>)]

\* ---------------------------------------------------------------- operations
\* Re-defining an operation discards its result.  Whether a child's equation table that named a base set of that result still
\* names something after the next execution depends on which identifiers the library re-issues (copies that collide are given
\* fresh identifiers, the others keep theirs) - below the abstraction of this model; generators do not take that step.
NamedByChildTable(S, p) == \E c \in ChildrenOf(S, p) : S.oper[c].table >= 1
InitFor(S, p, type, table) ==
  IF ~IsOp(S, p) THEN S
  ELSE IF type = "synt" /\ table = -1 THEN S                         \* synthesis needs options
  ELSE IF /\ S.oper[p].type = type
          /\ \/ (table <= 0 /\ S.oper[p].table = table)
             \/ (table >= 1 /\ S.oper[p].table >= 1 /\ S.oper[p].tkey = TKey(S, p, table)) THEN S    \* the same definition: nothing changes
  ELSE \* the handle is re-initialised first, then the old result is saved, closed and forgotten (Discard), then the definition is checked
       LET R == [S EXCEPT !.oper[p] = [type |-> type, table |-> table, broken |-> FALSE, outdated |-> FALSE,
                                        tkey |-> IF table >= 1 THEN TKey(S, p, table) ELSE <<NoTok, NoTok>>]]
           S0 == Sync(R, p)
           S1 == [S0 EXCEPT !.hand[p] = EmptyHandle]
       IN CheckOp(S1, p)

\* the base sets of the synthesis of p's parents: the first operand's (without the equated key), then the second operand's;
\* labelled base sets that arrive twice are merged (the earlier one stays)
RECURSIVE DropDups(_, _)
DropDups(q, acc) == IF q = <<>> THEN acc ELSE DropDups(Tail(q), IF InSeq(Head(q), acc) THEN acc ELSE Append(acc, Head(q)))
SynthBases(S, p) ==
  LET b1 == DataOf(S, S.par[p][1]).b  b2 == DataOf(S, S.par[p][2]).b  o == S.oper[p]
      kept1 == IF o.table >= 1 THEN SelectSeq(b1, LAMBDA t : t # o.tkey[1]) ELSE b1
      all == kept1 \o b2
  IN IF S.labelled THEN DropDups(all, <<>>) ELSE all
Label(tok) == <<tok[1], tok[2]>>

\* Execute returns [ok, S]; a failing Execute keeps the side effects it had up to the failure
RECURSIVE Execute(_, _, _, _), Prepare(_, _, _, _)
Prepare(S, p, i, newSrc) ==  \* outdated parents are executed first, a broken parent stops everything
  IF i > 2 THEN [ok |-> TRUE, S |-> S]
  ELSE LET q == S.par[p][i] IN
       IF ~IsOp(S, q) THEN Prepare(S, p, i + 1, newSrc)
       ELSE IF S.oper[q].broken THEN [ok |-> FALSE, S |-> S]
       ELSE IF S.oper[q].outdated THEN LET r == Execute(S, q, newSrc, FALSE) IN IF r.ok THEN Prepare(r.S, p, i + 1, newSrc) ELSE r
       ELSE Prepare(S, p, i + 1, newSrc)
\* newSrc: the names the environment gives to newly created result sources, indexed by pictogram
Execute(S, p, newSrc, autoDiscard) ==
  IF ~IsOp(S, p) THEN [ok |-> FALSE, S |-> S]
  ELSE LET pr == Prepare(S, p, 1, newSrc) IN
  IF ~pr.ok THEN pr
  ELSE LET S1 == CheckOp(pr.S, p) IN
  IF S1.oper[p].broken THEN [ok |-> FALSE, S |-> S1]
  ELSE
    LET d1 == DataOf(S1, S1.par[p][1])  d2 == DataOf(S1, S1.par[p][2])
        S2 == IF HasData(S1, p) THEN Sync(Reopen(S1, p), p) ELSE S1         \* AggregateVersions fetches (re-opens) and saves the old result first
        carried == IF HasData(S2, p) THEN DataOf(S2, p).e ELSE {}           \* the user's own additions are carried over
        content == [b |-> SynthBases(S2, p), ax |-> [k \in 1..Len(SynthBases(S2, p)) |-> k], nextk |-> 1, u |-> d1.u \cup d1.e \cup d2.u \cup d2.e, e |-> carried,
                    txt |-> 0, saved |-> TRUE, locked |-> FALSE]
        s == IF HasData(S2, p) THEN S2.hand[p].name ELSE newSrc[p]
        oldHash == S2.hand[p].hash
        S3 == [S2 EXCEPT !.store = (s :> content) @@ [x \in DOMAIN S2.store \ {s} |-> S2.store[x]],
                         !.hand[p] = [name |-> s, hash |-> <<{content.ax[i] : i \in DOMAIN content.ax}, content.u, content.e>>, linked |-> TRUE],
                         !.oper[p].broken = FALSE, !.oper[p].outdated = FALSE]
        \* the children are re-checked; those computed from another content of p are outdated now
        changed == oldHash # S3.hand[p].hash
        cs == ChildSeq(S3, p)
        RECURSIVE Upd(_, _)
        Upd(T, i) == IF i > Len(cs) THEN T
                     ELSE LET T1 == CheckOp(T, cs[i]) IN Upd(IF changed THEN [T1 EXCEPT !.oper[cs[i]].outdated = TRUE] ELSE T1, i + 1)
    IN IF HasData(S2, p) /\ DataOf(S2, p).locked
       THEN [ok |-> FALSE, S |-> [S2 EXCEPT !.oper[p].broken = TRUE]]     \* the new result cannot be written: broken, still outdated
       ELSE [ok |-> TRUE, S |-> Upd(S3, 1)]

RECURSIVE ExecAll(_, _, _, _)
ExecAll(S, ps, i, newSrc) == IF i > Len(ps) THEN S ELSE ExecAll(Execute(S, ps[i], newSrc, TRUE).S, ps, i + 1, newSrc)

\* ---------------------------------------------------------------- C19 as predicates on a state
RECURSIVE Ancestors(_, _, _)
Ancestors(S, p, fuel) == IF fuel = 0 \/ S.par[p] = <<>> THEN {}
                         ELSE {S.par[p][1], S.par[p][2]} \cup Ancestors(S, S.par[p][1], fuel - 1) \cup Ancestors(S, S.par[p][2], fuel - 1)
Structure(S) ==
  /\ DOMAIN S.hand = Picts(S)                                                   \* one source handle each
  /\ DOMAIN S.cell = Picts(S) /\ \A p, q \in Picts(S) : p # q => S.cell[p] # S.cell[q]   \* one grid cell each, no cell twice
  /\ DOMAIN S.oper = {p \in Picts(S) : S.par[p] # <<>>}                         \* operation handle iff it has parents
  /\ \A p \in DOMAIN S.oper : /\ Len(S.par[p]) = 2 /\ S.par[p][1] # S.par[p][2]
                              /\ S.par[p][1] \in Picts(S) /\ S.par[p][2] \in Picts(S)
                              /\ p \notin Ancestors(S, p, Cardinality(Picts(S)) + 1)
\* when nothing is waiting to be announced: an operation that reports done was computed from its parents' current contents
\* nothing is pending and every source is open (what happens to a closed source is not announced to the schema)
AllSaved(S) == \A p \in Picts(S) : HasData(S, p) => (S.hand[p].linked /\ S.store[S.hand[p].name].saved)
Expected(S, p) ==
  LET d1 == DataOf(S, S.par[p][1])  d2 == DataOf(S, S.par[p][2]) IN
  <<Len(SynthBases(S, p)), d1.u \cup d1.e \cup d2.u \cup d2.e>>
\* a parent re-connected to another source with the same formal content leaves the operation done although its table names base
\* sets of the old source (the statement speaks of changes that alter the formal content): such operations are not judged
TableLive(S, p) == S.oper[p].table >= 1 => (InSeq(S.oper[p].tkey[1], DataOf(S, S.par[p][1]).b) /\ InSeq(S.oper[p].tkey[2], DataOf(S, S.par[p][2]).b))
\* (with labelled base sets the texts decide which copies DeleteDuplicates merges: the synthesis can change although no parent's
\* formal content did, which is outside the statement's freshness clause - Fresh is stated for unlabelled schemas)
Fresh(S) ==
  (AllSaved(S) /\ ~S.labelled) =>
    \A p \in DOMAIN S.oper :
       (StatusOf(S, p) = "done" /\ HasData(S, S.par[p][1]) /\ HasData(S, S.par[p][2]) /\ TableLive(S, p)) =>
          <<Len(DataOf(S, p).b), DataOf(S, p).u>> = Expected(S, p)

-----------------------------------------------------------------------------
(* Recorded calls: one record per public call (of the schema or of its environment); shared by the generator and the trace spec *)
NewSrcOf == [p \in 1..300 |-> 1000 + p]
Op(o) == [op |-> o, p |-> 0, a |-> 0, b |-> 0, new |-> 0, s |-> 0, n |-> 0, kind |-> "", type |-> "", table |-> 0]
\* apply one recorded call to a state
Apply(S, c) ==
  CASE c.op = "InsertBase" -> InsertBase(S, c.new)
    [] c.op = "InsertOperation" -> InsertOperation(S, c.new, c.a, c.b)
    [] c.op = "Erase" -> Erase(S, c.p)
    [] c.op = "ConnectNew" -> ConnectNew(S, c.p, c.s, c.n)
    [] c.op = "Edit" -> Edit(S, c.p, c.kind)
    [] c.op = "Save" -> Save(S, c.p)
    [] c.op = "Lock" -> Lock(S, c.p)
    [] c.op = "Close" -> CloseSrc(S, c.p)
    [] c.op = "Drop" -> DropSrc(S, c.p)
    [] c.op = "Open" -> OpenSrc(S, c.p)
    [] c.op = "Reload" -> Reload(S, c.n)
    [] c.op = "ShiftPict" -> ShiftPict(S, c.p, c.n)
    [] c.op = "LoadPosition" -> LoadPosition(S, c.p, <<c.a, c.b>>)
    [] c.op = "InitFor" -> InitFor(S, c.p, c.type, c.table)
    [] c.op = "Execute" -> Execute(S, c.p, NewSrcOf, FALSE).S
    [] c.op = "ExecuteAll" -> ExecAll(S, SelectSeq(S.gitems, LAMBDA x : IsOp(S, x)), 1, NewSrcOf)
RECURSIVE ApplyAll(_, _, _)
ApplyAll(S, cs, i) == IF i > Len(cs) THEN S ELSE ApplyAll(Apply(S, cs[i]), cs, i + 1)

\* every closed source is opened again and every pending change announced (pictograms in ascending order)
SaveAll(S) == LET ps == SortedSeq(Picts(S))
                  RECURSIVE F(_, _)
                  F(T, i) == IF i > Len(ps) THEN T ELSE F(Save(OpenSrc(T, ps[i]), ps[i]), i + 1)
              IN F(S, 1)
View(S) ==
  LET ps == SortedSeq(Picts(S)) IN
  [i \in DOMAIN ps |-> LET p == ps[i] IN
     [pid |-> p, parents |-> S.par[p], row |-> S.cell[p][1], col |-> S.cell[p][2], isOp |-> IsOp(S, p), hasData |-> HasData(S, p),
      linked |-> S.hand[p].linked, status |-> StatusOf(S, p),
      broken |-> IF IsOp(S, p) THEN S.oper[p].broken ELSE FALSE, outdated |-> IF IsOp(S, p) THEN S.oper[p].outdated ELSE FALSE,
      type |-> IF IsOp(S, p) THEN S.oper[p].type ELSE "",
      n |-> IF HasData(S, p) THEN Len(DataOf(S, p).b) ELSE 0,
      labels |-> IF HasData(S, p) /\ S.labelled THEN [j \in DOMAIN DataOf(S, p).b |-> Label(DataOf(S, p).b[j])] ELSE <<>>,
      key |-> IF IsOp(S, p) /\ S.labelled /\ S.oper[p].table >= 1
              THEN (IF /\ S.oper[p].tkey # <<NoTok, NoTok>> /\ HasData(S, S.par[p][1]) /\ HasData(S, S.par[p][2])
                       /\ InSeq(S.oper[p].tkey[1], DataOf(S, S.par[p][1]).b) /\ InSeq(S.oper[p].tkey[2], DataOf(S, S.par[p][2]).b)
                    THEN <<Label(S.oper[p].tkey[1]), Label(S.oper[p].tkey[2])>> ELSE <<"dangling">>)
              ELSE <<>>, terms |-> IF HasData(S, p) THEN Cardinality(DataOf(S, p).u \cup DataOf(S, p).e) ELSE 0]]
=============================================================================
