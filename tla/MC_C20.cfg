CONSTANTS Hi = 5
Alphabet = {97, 32, 44, 45, 55, 1077}
MaxLen = 3
SPECIFICATION Spec
INVARIANTS LawsHold StringLaws
