------------------------------- MODULE RSEval -------------------------------
(***************************************************************************)
(* Denotational semantics of RSLang expressions: the value standard set    *)
(* theory assigns to a well-typed tree under a finite interpretation.      *)
(*   I : global name -> value     FD : function -> [args : Seq(name), body] *)
(*   V : local name -> value      result [ok, v]  (v = error kind if ~ok)   *)
(* Two evaluators share all arms except connectives and quantifiers:        *)
(*   strict  - an error anywhere propagates                                 *)
(*   kleene  - F & ? = F, T or ? = T, F => ? = T, a falsifying witness       *)
(*             decides a universal, a satisfying one an existential          *)
(* An implementation that short-circuits in any order returns either the    *)
(* kleene value or, when the strict evaluation fails, that failure (C01).   *)
(***************************************************************************)
EXTENDS RSTyping, FiniteSets

(* Evaluation (strict): I: global -> value; FD: function -> [args: Seq(name), body: tree];
   V: local -> value.  Result [ok, v].                                      *)
Ok(v)  == [ok |-> TRUE, v |-> v]
Err(w) == [ok |-> FALSE, v |-> w]

RECURSIVE BindV(_, _, _)
BindV(d, v, V) ==
  IF d.id = "LOCAL" THEN Ext(V, d.s, v)
  ELSE LET RECURSIVE B(_, _)
           B(i, acc) == IF i > Len(d.ch) THEN acc ELSE B(i+1, BindV(d.ch[i], v[i], acc))
       IN B(1, V)

\* all environments an (enumerated) declaration ranges over
RECURSIVE EnvsOf(_, _, _, _)
EnvsOf(ds, i, dom, V) ==   \* ds: sequence of patterns, each ranges independently over dom
  IF i > Len(ds) THEN {V} ELSE UNION {EnvsOf(ds, i+1, dom, BindV(ds[i], x, V)) : x \in dom}
DeclEnvs(d, dom, V) == IF d.id = "ENUMDECL" THEN EnvsOf(d.ch, 1, dom, V) ELSE EnvsOf(<<d>>, 1, dom, V)

MaxI32 == 2147483647
MinI32 == -2147483647 - 1
AbsI(a) == IF a < 0 THEN 0 - a ELSE a
AddOver(a, b) == (b > 0 /\ a > MaxI32 - b) \/ (b < 0 /\ a < MinI32 - b)
\* (products equal to -2^31 exactly are treated as overflowing: not generated)
MulOver(a, b) == a # 0 /\ b # 0 /\ (a = MinI32 \/ b = MinI32 \/ AbsI(a) > MaxI32 \div AbsI(b))
\* TLC keeps [x \in S |-> e] as a lambda and re-evaluates e at every application; merging with the empty function makes it a table
Force(f) == f @@ <<>>
RECURSIVE Ev(_, _, _, _, _)
\* K = TRUE: kleene connectives and quantifiers; K = FALSE: strict
Ev(e, I, FD, V, K) ==
  LET RS == Force([i \in 1..Len(e.ch) |-> Ev(e.ch[i], I, FD, V, K)])     \* evaluated once, on first use (not touched for binders)
      R(i) == RS[i]
      EV(x, VV) == Ev(x, I, FD, VV, K)
      N == Len(e.ch)
      AnyErr == \E i \in 1..N : ~R(i).ok
      FirstErr == R(CHOOSE i \in 1..N : ~R(i).ok /\ \A j \in 1..(i-1) : R(j).ok)
      v(i) == R(i).v
      Sel(t, ix) == IF Len(ix) = 1 THEN t[ix[1]] ELSE [i \in 1..Len(ix) |-> t[ix[i]]]
  IN
  CASE e.id = "INT" -> Ok(e.n)
    [] e.id = "EMPTY" -> Ok({})
    [] e.id = "GLOBAL" -> Ok(I[e.s])
    [] e.id = "LOCAL" -> Ok(V[e.s])
    [] e.id \in Quant \cup {"DECLARATIVE"} ->
         LET d == EV(e.ch[2], V) IN
         IF ~d.ok THEN d
         ELSE IF e.id = "DECLARATIVE" THEN
                LET B(x) == EV(e.ch[3], BindV(e.ch[1], x, V)) IN
                IF \E x \in d.v : ~B(x).ok THEN Err("debool") ELSE Ok({x \in d.v : B(x).v})
         ELSE LET envs == DeclEnvs(e.ch[1], d.v, V)
                  decisive == IF e.id = "FORALL" THEN FALSE ELSE TRUE      \* the body value that decides the quantifier
              IN
              IF K /\ \E w \in envs : EV(e.ch[3], w).ok /\ EV(e.ch[3], w).v = decisive THEN Ok(decisive)
              ELSE IF \E w \in envs : ~EV(e.ch[3], w).ok THEN Err("debool")
              ELSE IF e.id = "FORALL" THEN Ok(\A w \in envs : EV(e.ch[3], w).v)
              ELSE Ok(\E w \in envs : EV(e.ch[3], w).v)
    [] e.id \in {"REC_SHORT", "REC_FULL"} ->
         LET init == EV(e.ch[2], V)
             RECURSIVE Loop(_, _)
             Loop(cur, fuel) ==
               IF fuel = 0 THEN Err("limit")
               ELSE LET W == BindV(e.ch[1], cur, V)
                        c == IF e.id = "REC_FULL" THEN EV(e.ch[3], W) ELSE Ok(TRUE)
                    IN IF ~c.ok THEN c
                       ELSE IF ~c.v THEN Ok(cur)
                       ELSE LET nx == EV(e.ch[N], W) IN
                            IF ~nx.ok THEN nx ELSE IF nx.v = cur THEN Ok(cur) ELSE Loop(nx.v, fuel - 1)
         IN IF ~init.ok THEN init ELSE Loop(init.v, 64)
    [] e.id = "IMPERATIVE" ->
         \* returns set of environments or error marker
         LET RECURSIVE Run(_, _)
             Run(i, envs) ==    \* envs: set of environments; result [ok, envs]
               IF i > N THEN [ok |-> TRUE, envs |-> envs]
               ELSE LET blk == e.ch[i] IN
                    IF blk.id = "ITERATE" THEN
                      IF \E w \in envs : ~EV(blk.ch[2], w).ok THEN [ok |-> FALSE, envs |-> {}]
                      ELSE Run(i+1, UNION {{BindV(blk.ch[1], x, w) : x \in EV(blk.ch[2], w).v} : w \in envs})
                    ELSE IF blk.id = "ASSIGN" THEN
                      IF \E w \in envs : ~EV(blk.ch[2], w).ok THEN [ok |-> FALSE, envs |-> {}]
                      ELSE Run(i+1, {BindV(blk.ch[1], EV(blk.ch[2], w).v, w) : w \in envs})
                    ELSE IF \E w \in envs : ~EV(blk, w).ok THEN [ok |-> FALSE, envs |-> {}]
                         ELSE Run(i+1, {w \in envs : EV(blk, w).v})
             r == Run(2, {V})
         IN IF ~r.ok THEN Err("debool")
            ELSE IF \E w \in r.envs : ~EV(e.ch[1], w).ok THEN Err("debool")
            ELSE Ok({EV(e.ch[1], w).v : w \in r.envs})
    [] K /\ e.id = "AND" /\ ((R(1).ok /\ ~R(1).v) \/ (R(2).ok /\ ~R(2).v)) -> Ok(FALSE)
    [] K /\ e.id = "OR" /\ ((R(1).ok /\ R(1).v) \/ (R(2).ok /\ R(2).v)) -> Ok(TRUE)
    [] K /\ e.id = "IMPLICATION" /\ ((R(1).ok /\ ~R(1).v) \/ (R(2).ok /\ R(2).v)) -> Ok(TRUE)
    [] AnyErr -> FirstErr
    [] e.id = "CALL" ->
         Ev(FD[e.s].body, I, FD, Force([x \in {FD[e.s].args[i] : i \in 1..N} |-> v(CHOOSE i \in 1..N : FD[e.s].args[i] = x)]), K)
    [] e.id = "FILTER" ->
         LET arg == v(N) IN
         IF Len(e.ix) = N - 1
         THEN Ok({t \in arg : \A i \in 1..(N-1) : t[e.ix[i]] \in v(i)})
         ELSE Ok({t \in arg : Sel(t, e.ix) \in v(1)})
    [] e.id = "UNION" -> Ok(v(1) \cup v(2))
    [] e.id = "INTERSECTION" -> Ok(v(1) \cap v(2))
    [] e.id = "SET_MINUS" -> Ok(v(1) \ v(2))
    [] e.id = "SYMMINUS" -> Ok((v(1) \ v(2)) \cup (v(2) \ v(1)))
    [] e.id = "IN" -> Ok(v(1) \in v(2))
    [] e.id = "NOTIN" -> Ok(v(1) \notin v(2))
    [] e.id = "SUBSET" -> Ok(v(1) \subseteq v(2) /\ v(1) # v(2))
    [] e.id = "SUBSET_OR_EQ" -> Ok(v(1) \subseteq v(2))
    [] e.id = "NOTSUBSET" -> Ok(~(v(1) \subseteq v(2) /\ v(1) # v(2)))
    [] e.id = "EQUAL" -> Ok(v(1) = v(2))
    [] e.id = "NOTEQUAL" -> Ok(v(1) # v(2))
    [] e.id = "GREATER" -> Ok(v(1) > v(2))
    [] e.id = "LESSER" -> Ok(v(1) < v(2))
    [] e.id = "GREATER_OR_EQ" -> Ok(v(1) >= v(2))
    [] e.id = "LESSER_OR_EQ" -> Ok(v(1) <= v(2))
    \* integers are exact inside the 32-bit range of stored values; a result outside it is the documented overflow error
    \* (the tests are written so that TLC itself never leaves the range)
    [] e.id = "PLUS" -> IF AddOver(v(1), v(2)) THEN Err("overflow") ELSE Ok(v(1) + v(2))
    [] e.id = "MINUS" -> IF v(2) = MinI32 \/ AddOver(v(1), 0 - v(2)) THEN Err("overflow") ELSE Ok(v(1) - v(2))
    [] e.id = "MULTIPLY" -> IF MulOver(v(1), v(2)) THEN Err("overflow") ELSE Ok(v(1) * v(2))
    [] e.id = "AND" -> Ok(v(1) /\ v(2))
    [] e.id = "OR" -> Ok(v(1) \/ v(2))
    [] e.id = "IMPLICATION" -> Ok(v(1) => v(2))
    [] e.id = "EQUIVALENT" -> Ok(v(1) <=> v(2))
    [] e.id = "NOT" -> Ok(~v(1))
    [] e.id = "CARD" -> Ok(Cardinality(v(1)))
    [] e.id = "DEBOOL" -> IF Cardinality(v(1)) = 1 THEN Ok(CHOOSE x \in v(1) : TRUE) ELSE Err("debool")
    [] e.id = "BOOL" -> Ok({v(1)})
    [] e.id = "BOOLEAN" -> Ok(SUBSET v(1))
    [] e.id = "DECART" ->
         LET RECURSIVE P(_)
             P(i) == IF i > N THEN {<<>>} ELSE {<<x>> \o t : x \in v(i), t \in P(i+1)}
         IN Ok(P(1))
    [] e.id = "TUPLE" -> Ok([i \in 1..N |-> v(i)])
    [] e.id = "ENUM" -> Ok({v(i) : i \in 1..N})
    [] e.id = "REDUCE" -> Ok(UNION v(1))
    [] e.id = "BIGPR" -> Ok({Sel(t, e.ix) : t \in v(1)})
    [] e.id = "SMALLPR" -> Ok(Sel(v(1), e.ix))
    [] OTHER -> Err("unsupported")


Eval(e, I, FD, V)  == Ev(e, I, FD, V, FALSE)     \* strict
EvalK(e, I, FD, V) == Ev(e, I, FD, V, TRUE)      \* kleene

\* C01: an observed outcome [ok, v] is admissible iff it is the kleene value, or a failure where strict evaluation fails
Admissible(obs, e, I, FD, V) ==
  IF obs.ok THEN EvalK(e, I, FD, V).ok /\ EvalK(e, I, FD, V).v = obs.v
  ELSE ~Eval(e, I, FD, V).ok

RECURSIVE InDom(_, _, _)
\* C02: v has the structure of typification t over interpretation I (a wrongly shaped v makes TLC fail, which is also a verdict)
InDom(v, t, I) ==
  CASE t.k = "logic" -> v \in BOOLEAN
    [] t.k = "Z" -> v \in Int
    [] t.k = "base" -> IF t.id \in DOMAIN I /\ t.id \notin ConstIds THEN v \in I[t.id]
                       ELSE v \in Int            \* integer-like constant sets admit any integer (Z converts to them)
    [] t.k = "tuple" -> Len(v) = Len(t.c) /\ \A i \in 1..Len(t.c) : InDom(v[i], t.c[i], I)
    [] t.k = "bool" -> \A x \in v : InDom(x, t.c[1], I)
    [] OTHER -> TRUE
=============================================================================
