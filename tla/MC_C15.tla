------------------------------- MODULE MC_C15 -------------------------------
(* Model-internal: the order used inside sets (RSValues!Less) is a strict total order on the *)
(* values of every typification of the bounded universe, consistent with equality.           *)
EXTENDS RSValues, TLC
VARIABLES t, st, px, py
U == [b \in {"X1"} |-> {1, 2}]
X == TBase("X1")
Types == {X, TTuple(<<X, X>>), TBool(X), TBool(TTuple(<<X, X>>)), TBool(TBool(X)), TTuple(<<TBool(X), X>>),
          TBool(TTuple(<<TBool(X), X>>)), TTuple(<<X, X, X>>)}
\* initial states are computed by one thread, so the pairs are chosen by Next (spread over the workers)
Init == t \in Types /\ st = 0 /\ px = [v |-> 0] /\ py = [v |-> 0]
Next == \/ st = 0 /\ st' = 1 /\ t' = t /\ py' = py /\ \E a \in Dom(t, U) : px' = [v |-> a]
        \/ st = 1 /\ st' = 2 /\ t' = t /\ px' = px /\ \E b \in Dom(t, U) : py' = [v |-> b]
Spec == Init /\ [][Next]_<<t, st, px, py>>
x == px.v
y == py.v
StrictTotalOrder == st = 2 =>
  /\ ~Less(x, x, t)
  /\ (x # y) => (Less(x, y, t) \/ Less(y, x, t))
  /\ ~(Less(x, y, t) /\ Less(y, x, t))
  /\ \A z \in Dom(t, U) : (Less(x, y, t) /\ Less(y, z, t)) => Less(x, z, t)
  /\ (t.k = "bool" /\ Cardinality(x) < Cardinality(y)) => Less(x, y, t)
SortLaws ==
  (st = 2 /\ t.k = "bool") => LET q == SortBy(x, t.c[1]) IN
     /\ Len(q) = Cardinality(x) /\ {q[i] : i \in DOMAIN q} = x
     /\ \A i \in 1..(Len(q) - 1) : Less(q[i], q[i + 1], t.c[1])
=============================================================================
