------------------------------- MODULE Gen_C16 ------------------------------
(* Spec -> code for C16.                                                     *)
(*  mode "rt":  every (typification, compatible value) of the bounded        *)
(*              universe with Pack(v,t); RoundTrips is checked as an          *)
(*              invariant on the way (model-level theorem).  A third stage    *)
(*              mutates one cell of the packed table (near-valid tables).     *)
(*  mode "tab": every ragged table built by AppendCell/NewRow within the      *)
(*              bounds, with Unpack's prediction for every typification.      *)
EXTENDS SDCompact, TLC, Json
CONSTANTS MaxDepth,      \* nesting depth of typifications
          MaxArity,
          SubsetCap,     \* element domains larger than this are sampled by subsets of size <= 2 (plus the full set)
          Cells,         \* alphabet of table cells for mode "tab"
          MaxRows, MaxCols,
          MutRows        \* one-cell / one-row mutants are generated for packed tables with at most this many rows

U == [x \in {"X1"} |-> {1, 2}]

RECURSIVE TypesUpTo(_)
TypesUpTo(d) ==
  IF d = 0 THEN {TBase("X1")}
  ELSE LET P == TypesUpTo(d - 1) IN
       P \cup {TBool(t) : t \in P} \cup {TTuple(<<a, b>>) : a \in P, b \in P}
         \cup (IF MaxArity >= 3 THEN {TTuple(<<a, b, c>>) : a \in {TBase("X1"), TBool(TBase("X1"))}, b \in {TBase("X1"), TBool(TBase("X1"))}, c \in {TBase("X1"), TBool(TBase("X1"))}} ELSE {})
\* shapes where an error in the width of an empty set or in the row cursor shows: a set followed by a sibling
X1T == TBase("X1")
SiblingTypes == UNION {{TTuple(<<TBool(t), X1T>>), TTuple(<<X1T, TBool(t), X1T>>), TBool(TTuple(<<TBool(t), X1T>>)),
                        TTuple(<<TBool(TBool(t)), X1T>>)} : t \in TypesUpTo(2)}
Types == TypesUpTo(MaxDepth) \cup SiblingTypes

\* a spread sample of at most 4 elements of a larger set (first, two inner, last in TLC's enumeration order)
Thin(S) == IF Cardinality(S) <= SubsetCap THEN S
           ELSE LET q == SetToSeq(S)  n == Len(q) IN {q[1], q[(n + 2) \div 3], q[(2 * n + 1) \div 3], q[n]}

RECURSIVE Vals(_)
\* the values explored for a typification: all of Dom while element domains have <= SubsetCap elements,
\* otherwise all subsets / tuples over a thinned element domain (so every level stays small)
Vals(t) ==
  CASE t.k = "bool" -> SUBSET Thin(Vals(t.c[1]))
    [] t.k = "tuple" ->
         LET RECURSIVE P(_)
             P(i) == IF i > Len(t.c) THEN {<<>>} ELSE {<<h>> \o r : h \in Thin(Vals(t.c[i])), r \in P(i + 1)}
         IN P(1)
    [] OTHER -> U[t.id]

TableTypes == <<TBase("X1"), TBool(TBase("X1")), TBool(TBool(TBase("X1"))), TTuple(<<TBase("X1"), TBase("X1")>>),
                TBool(TTuple(<<TBase("X1"), TBase("X1")>>)), TTuple(<<TBool(TBase("X1")), TBase("X1")>>),
                TBool(TTuple(<<TBool(TBase("X1")), TBase("X1")>>)), TBool(TTuple(<<TBase("X1"), TBool(TBase("X1"))>>)),
                TTuple(<<TBool(TBase("X1")), TBool(TBase("X1"))>>), TBool(TBool(TBool(TBase("X1")))),
                TBool(TBool(TTuple(<<TBase("X1"), TBase("X1")>>))), TTuple(<<TBase("X1"), TBool(TBool(TBase("X1")))>>)>>

VARIABLES mode, stage, ty, val, tab
vars == <<mode, stage, ty, val, tab>>

Init == \/ mode = "rt" /\ stage = 1 /\ ty \in Types /\ val = 0 /\ tab = <<>>
        \/ mode = "tab" /\ stage = 1 /\ ty = TBase("X1") /\ val = 0 /\ tab = << <<>> >>

MutCells == {-1, 0, 1, 2, 3, UnknownCount}
Next ==
  \/ /\ mode = "rt" /\ stage = 1 /\ stage' = 2
     /\ \E v \in Vals(ty) : val' = [v |-> v] /\ tab' = Pack(v, ty)
     /\ UNCHANGED <<mode, ty>>
  \/ /\ mode = "rt" /\ stage = 2 /\ Len(tab) <= MutRows /\ stage' = 3
     /\ \E i \in 1..Len(TableTypes) : TableTypes[i] = ty
     /\ \/ \E i \in 1..Len(tab) : \E j \in 1..Len(tab[i]) : \E c \in MutCells \ {tab[i][j]} :
             tab' = [tab EXCEPT ![i][j] = c]
        \/ \E i \in 1..Len(tab) : tab' = SubSeq(tab, 1, i - 1) \o SubSeq(tab, i + 1, Len(tab))     \* drop a row
        \/ \E i \in 1..Len(tab) : tab' = SubSeq(tab, 1, i) \o SubSeq(tab, i, Len(tab))             \* duplicate a row
        \/ \E i \in 1..Len(tab) : Len(tab[i]) > 0 /\ tab' = [tab EXCEPT ![i] = SubSeq(tab[i], 1, Len(tab[i]) - 1)]  \* truncate
     /\ UNCHANGED <<mode, ty, val>>
  \/ /\ mode = "tab" /\ UNCHANGED <<mode, stage, ty, val>>
     /\ \/ /\ Len(tab[Len(tab)]) < MaxCols
           /\ \E c \in Cells : tab' = [tab EXCEPT ![Len(tab)] = Append(tab[Len(tab)], c)]
        \/ /\ Len(tab) < MaxRows /\ tab' = Append(tab, <<>>)

Spec == Init /\ [][Next]_vars

\* model-level theorem, checked on every (t, v) the generator visits
RoundTripTheorem == (mode = "rt" /\ stage = 2) => RoundTrips(val.v, ty)

Predict(rows, t) == LET r == Unpack(rows, t) IN [ok |-> r.ok, v |-> IF r.ok THEN <<Enc(r.v, t)>> ELSE <<>>]
Case ==
  IF mode = "rt" /\ stage = 2
  THEN [kind |-> "rt", type |-> <<ty>>, value |-> <<Enc(val.v, ty)>>, table |-> tab, pred |-> <<>>]
  ELSE IF mode = "rt"
  THEN [kind |-> "mut", type |-> <<ty>>, value |-> <<>>, table |-> tab, pred |-> <<Predict(tab, ty)>>]
  ELSE [kind |-> "tab", type |-> TableTypes, value |-> <<>>, table |-> tab,
        pred |-> [i \in 1..Len(TableTypes) |-> Predict(tab, TableTypes[i])]]
Emit == (mode = "tab" \/ stage >= 2) => PrintT(<<"CASE", ToJson(Case)>>)
=============================================================================
