------------------------------ MODULE Trace_OSS -----------------------------
(* Code -> spec for C19: long random histories recorded from a real OSSchema driven through   *)
(* upstream's FakeSourceManager (up to 7 pictograms, 40 calls each: insert, erase, connect,    *)
(* edit, announce, define, execute, execute all, lock, reload) must be behaviours of OSS.tla:  *)
(* after every call the logged view (pictograms, parents, statuses, flags, contents) equals    *)
(* the model's, and Structure and Fresh hold.                                                  *)
EXTENDS OSS, Json, IOUtils
VARIABLES oss, l, seen
TraceLog == ndJsonDeserialize(IOEnv.TRACE)
tvars == <<oss, l, seen>>
NoObs == [has |-> FALSE, v |-> <<>>]
Ev == TraceLog[l]
TInit == oss = EmptyOSS /\ l = 1 /\ seen = NoObs
TNext ==
  /\ l <= Len(TraceLog)
  /\ l' = l + 1
  /\ seen' = (IF "view" \in DOMAIN Ev THEN [has |-> TRUE, v |-> Ev.view] ELSE NoObs)
  /\ CASE Ev.op = "Reset" -> oss' = (IF Ev.labelled THEN EmptyLabelled ELSE EmptyOSS)
       [] Ev.op = "Fault" -> FALSE
       [] OTHER -> oss' = Apply(oss, Ev)
TSpec == TInit /\ [][TNext]_tvars
PropOSS ==
  /\ Structure(oss)
  /\ Fresh(oss) /\ Fresh(SaveAll(oss))
  /\ seen.has => seen.v = View(oss)
TraceAccepted == TLCGet("stats").diameter - 1 = Len(TraceLog)
=============================================================================
