CONSTANTS MaxAtoms = 4
MaxOps = 3
AtomSet = {1, 2, 3, 4, 5, 6, 8, 9, 10, 11, 12, 13, 16, 17, 19, 21, 22, 23, 24, 25, 26, 27, 29, 31, 33, 34, 35, 36, 37, 38}
WithMgr = TRUE
SPECIFICATION Spec
INVARIANTS RangesOK ContractOK
CONSTRAINT Emit
