CONSTANTS ConstIds = {"C1", "C2", "C3", "C4", "C5"}
SPECIFICATION TSpec
INVARIANT PropSchema
POSTCONDITION TraceAccepted
CHECK_DEADLOCK FALSE
