----------------------------- MODULE Trace_Schema ---------------------------
(* Code -> spec for C07 / C08 / C09 / C10: long random editing histories recorded from a    *)
(* real RSForm (up to 10-12 constituents, colliding aliases and identifiers, erase and      *)
(* re-create, renames, tracking, save/load in the middle) must be behaviours of Schema.tla,  *)
(* and after every event the logged report (order, aliases, kinds, tracking, parse status,   *)
(* typification, arguments, dependency edges) must equal the specification's content and     *)
(* from-scratch Analysis.                                                                     *)
EXTENDS SchemaOps, Json, IOUtils
VARIABLES l, seen, snap
TraceLog == ndJsonDeserialize(IOEnv.TRACE)
tvars == <<order, cst, trk, l, seen, snap>>
NoObs == [none |-> TRUE]
Ev == TraceLog[l]
NoSchema == [ord |-> <<>>, c |-> <<>>]
Here == [ord |-> order, c |-> cst]
TInit == SInit /\ l = 1 /\ seen = NoObs /\ snap = NoSchema
\* C12 on the live schema: an equation table {k, v, m} (m: whose texts the survivor keeps) - SchemaOps!EquateT
TableFn(tb) == [k \in {tb[i].k : i \in DOMAIN tb} |-> tb[CHOOSE i \in DOMAIN tb : tb[i].k = k].v]
ModeKeys(tb, m) == {tb[i].k : i \in {j \in DOMAIN tb : tb[j].m = m}}
EqModel ==
  LET E == TableFn(Ev.table)  ok == EqAdmissible(Here, E) IN
  [ok |-> ok, tr |-> IF ok THEN LET r == EquateT(Here, trk, E, ModeKeys(Ev.table, "del"), ModeKeys(Ev.table, "new")) IN [u \in DOMAIN cst |-> FinalOf(u, r.pairs, 16)] ELSE <<>>]
Consume == l' = l + 1 /\ seen' = (IF "obs" \in DOMAIN Ev THEN (IF Ev.e = "Equate" THEN [model |-> EqModel] @@ Ev.obs ELSE Ev.obs) ELSE NoObs)
DefOf(t) == IF t.id = "NODEF" THEN NoDef ELSE t
TNext ==
  /\ l <= Len(TraceLog)
  /\ Consume
  /\ IF Ev.e \in {"Reset", "Snapshot", "Synth", "Equate"} THEN TRUE ELSE snap' = snap
  /\ CASE Ev.e = "Reset" -> order' = <<>> /\ cst' = <<>> /\ trk' = <<>> /\ snap' = NoSchema
       [] Ev.e = "Snapshot" -> snap' = Here /\ UNCHANGED svars                 \* a copy of the schema is kept as a second operand
       [] Ev.e = "Synth" -> UNCHANGED <<svars, snap>>                          \* builds a new schema from the live one and the copy
       [] Ev.e = "Equate" ->
            LET E == TableFn(Ev.table) IN
            /\ snap' = snap
            /\ IF EqAdmissible(Here, E)
               THEN LET r == EquateT(Here, trk, E, ModeKeys(Ev.table, "del"), ModeKeys(Ev.table, "new")) IN order' = r.ord /\ cst' = r.c /\ trk' = r.t
               ELSE UNCHANGED svars
       [] Ev.e = "Emplace" -> Emplace(Ev.k, DefOf(Ev.def), Ev.fresh)
       [] Ev.e = "InsertCopy" ->
            \* the identifier actually used is logged: it is the record's own when that was free
            LET rec == [uid |-> Ev.uid, alias |-> Ev.a, kind |-> Ev.k, def |-> DefOf(Ev.def), conv |-> <<>>, term |-> <<>>, text |-> <<>>]
            IN IF Ev.uid \in Ids THEN InsertCopy(rec, Ev.fresh) ELSE (Ev.fresh = Ev.uid /\ InsertCopy(rec, 0))
       [] Ev.e = "Erase" -> Erase(Ev.u)
       [] Ev.e = "SetAlias" -> SetAlias(Ev.u, Ev.a, Ev.b)
       [] Ev.e = "SetExpression" -> SetExpression(Ev.u, DefOf(Ev.def))
       [] Ev.e = "MoveBefore" -> MoveBefore(Ev.u, Ev.p)
       [] Ev.e = "ResetAliases" -> ResetAliases
       [] Ev.e = "Track" -> Track(Ev.u, Ev.b)
       [] Ev.e = "StopTracking" -> StopTracking(Ev.u)
       [] Ev.e = "SaveLoad" -> SaveLoad
       [] Ev.e = "DeleteDuplicates" -> DeleteDuplicates
       [] Ev.e = "SetTerm" -> SetTerm(Ev.u, Ev.q)
       [] Ev.e = "SetText" -> SetText(Ev.u, Ev.q)
       [] Ev.e = "SetTermForm" -> SetTermForm(Ev.u, Ev.f, Ev.t)
       [] Ev.e = "SetConvention" -> SetConvention(Ev.u, Ev.w)
       [] Ev.e = "Extract" -> UNCHANGED svars          \* basis / maximal part: builds a new schema, the source is untouched
       [] Ev.e = "Fault" -> FALSE
TSpec == TInit /\ [][TNext]_tvars

PropSchema ==
  seen # NoObs =>
    LET an == Analysis(cst) IN
    /\ seen.order = order
    /\ Len(seen.items) = Len(order)
    /\ \A i \in DOMAIN order :
         LET u == order[i]  c == cst[u]  it == seen.items[i]  r == an[c.alias] IN
         /\ it.uid = u /\ it.alias = c.alias /\ it.kind = c.kind /\ it.tracked = (u \in DOMAIN trk)
         /\ it.ok = r.ok
         /\ r.ok => /\ it.type = TypeStr(r.type)
                    /\ it.vc = r.vc
                    /\ it.args = [k \in DOMAIN r.args |-> [name |-> r.args[k].name, type |-> TypeStr(r.args[k].type)]]
         /\ ToSet(it.deps) = Deps(cst, u)
         /\ ("forms" \in DOMAIN it) => LET fm == FormsOf(c) IN
               /\ Len(it.forms) = Cardinality(DOMAIN fm)
               /\ \A k \in DOMAIN it.forms : it.forms[k].f \in DOMAIN fm /\ fm[it.forms[k].f] = it.forms[k].t
    /\ seen.sameAsReloaded            \* clause (ii): the incremental state equals a copy reloaded from the saved document
    /\ SchemaInv
\* C13 on recorded extractions (events "Extract": operation, selection, refused?, members, new aliases, statuses of the result)
PropExtract ==
  (seen # NoObs /\ "ext" \in DOMAIN seen) =>
    LET x == seen.ext  S == ToSet(x.sel)
        defined == IF x.op = "basis" THEN BasisDefined(cst, S) ELSE MaxPartDefined(cst, S)
    IN /\ seen.order = order                                   \* the source is untouched
       /\ defined => x.defined
       /\ (defined /\ x.defined) =>
            LET R == IF x.op = "basis" THEN Basis(cst, S) ELSE MaxPart(cst, S)
                ex == Extract(order, cst, R)
                an == Analysis(cst)
            IN /\ x.members = ex.order
               /\ x.aliases = [i \in DOMAIN ex.order |-> ex.cst[ex.order[i]].alias]
               /\ Captures(cst, R, ex) \/ x.oks = [i \in DOMAIN ex.order |-> an[cst[ex.order[i]].alias].ok]
\* C12 on recorded equations and syntheses
PropEquate ==
  (seen # NoObs /\ "eq" \in DOMAIN seen) =>
    /\ seen.eq.accepted = seen.model.ok /\ seen.eq.equatable = seen.eq.accepted
    /\ seen.model.ok => /\ Len(seen.eq.tr) = Cardinality(DOMAIN seen.model.tr)
                         /\ \A i \in DOMAIN seen.eq.tr : seen.eq.tr[i].u \in DOMAIN seen.model.tr /\ seen.model.tr[seen.eq.tr[i].u] = seen.eq.tr[i].img
PairFn(tb) == [k \in {tb[i].k : i \in DOMAIN tb} |-> tb[CHOOSE i \in DOMAIN tb : tb[i].k = k].v]
PropSynth ==
  (seen # NoObs /\ "syn" \in DOMAIN seen) =>
    LET x == seen.syn
        r == Synth(Here, snap, PairFn(x.table), x.fresh)
    IN /\ seen.order = order
       /\ x.defined = r.defined /\ x.agree
       /\ r.defined =>
            LET an == Analysis(r.c) IN
            /\ Len(x.items) = Len(r.ord)
            /\ \A i \in DOMAIN r.ord : LET u == r.ord[i]  it == x.items[i]  a == an[r.c[u].alias] IN
                 /\ it.uid = u /\ it.alias = r.c[u].alias /\ it.kind = r.c[u].kind /\ it.ok = a.ok /\ (a.ok => it.type = TypeStr(a.type))
            /\ \A i \in DOMAIN x.t1 : x.t1[i].u \in DOMAIN r.t1 /\ r.t1[x.t1[i].u] = x.t1[i].img
            /\ \A i \in DOMAIN x.t2 : x.t2[i].u \in DOMAIN r.t2 /\ r.t2[x.t2[i].u] = x.t2[i].img
            /\ Len(x.t1) = Cardinality(DOMAIN cst) /\ Len(x.t2) = Cardinality(DOMAIN snap.c)
TraceAccepted == TLCGet("stats").diameter - 1 = Len(TraceLog)
=============================================================================
