----------------------------- MODULE Trace_Schema ---------------------------
(* Code -> spec for C07 / C08 / C09 / C10: long random editing histories recorded from a    *)
(* real RSForm (up to 10-12 constituents, colliding aliases and identifiers, erase and      *)
(* re-create, renames, tracking, save/load in the middle) must be behaviours of Schema.tla,  *)
(* and after every event the logged report (order, aliases, kinds, tracking, parse status,   *)
(* typification, arguments, dependency edges) must equal the specification's content and     *)
(* from-scratch Analysis.                                                                     *)
EXTENDS SchemaOps, Json, IOUtils
VARIABLES l, seen
TraceLog == ndJsonDeserialize(IOEnv.TRACE)
tvars == <<order, cst, trk, l, seen>>
NoObs == [none |-> TRUE]
Ev == TraceLog[l]
TInit == SInit /\ l = 1 /\ seen = NoObs
Consume == l' = l + 1 /\ seen' = (IF "obs" \in DOMAIN Ev THEN Ev.obs ELSE NoObs)
DefOf(t) == IF t.id = "NODEF" THEN NoDef ELSE t
TNext ==
  /\ l <= Len(TraceLog)
  /\ Consume
  /\ CASE Ev.e = "Reset" -> order' = <<>> /\ cst' = <<>> /\ trk' = <<>>
       [] Ev.e = "Emplace" -> Emplace(Ev.k, DefOf(Ev.def), Ev.fresh)
       [] Ev.e = "InsertCopy" ->
            \* the identifier actually used is logged: it is the record's own when that was free
            LET rec == [uid |-> Ev.uid, alias |-> Ev.a, kind |-> Ev.k, def |-> DefOf(Ev.def), conv |-> <<>>, term |-> <<>>, text |-> <<>>]
            IN IF Ev.uid \in Ids THEN InsertCopy(rec, Ev.fresh) ELSE (Ev.fresh = Ev.uid /\ InsertCopy(rec, 0))
       [] Ev.e = "Erase" -> Erase(Ev.u)
       [] Ev.e = "SetAlias" -> SetAlias(Ev.u, Ev.a, Ev.b)
       [] Ev.e = "SetExpression" -> SetExpression(Ev.u, DefOf(Ev.def))
       [] Ev.e = "MoveBefore" -> MoveBefore(Ev.u, Ev.p)
       [] Ev.e = "ResetAliases" -> ResetAliases
       [] Ev.e = "Track" -> Track(Ev.u, Ev.b)
       [] Ev.e = "StopTracking" -> StopTracking(Ev.u)
       [] Ev.e = "SaveLoad" -> SaveLoad
       [] Ev.e = "DeleteDuplicates" -> DeleteDuplicates
       [] Ev.e = "SetTerm" -> SetTerm(Ev.u, Ev.q)
       [] Ev.e = "SetText" -> SetText(Ev.u, Ev.q)
       [] Ev.e = "SetConvention" -> SetConvention(Ev.u, Ev.w)
       [] Ev.e = "Extract" -> UNCHANGED svars          \* basis / maximal part: builds a new schema, the source is untouched
       [] Ev.e = "Fault" -> FALSE
TSpec == TInit /\ [][TNext]_tvars

PropSchema ==
  seen # NoObs =>
    LET an == Analysis(cst) IN
    /\ seen.order = order
    /\ Len(seen.items) = Len(order)
    /\ \A i \in DOMAIN order :
         LET u == order[i]  c == cst[u]  it == seen.items[i]  r == an[c.alias] IN
         /\ it.uid = u /\ it.alias = c.alias /\ it.kind = c.kind /\ it.tracked = (u \in DOMAIN trk)
         /\ it.ok = r.ok
         /\ r.ok => /\ it.type = TypeStr(r.type)
                    /\ it.vc = r.vc
                    /\ it.args = [k \in DOMAIN r.args |-> [name |-> r.args[k].name, type |-> TypeStr(r.args[k].type)]]
         /\ ToSet(it.deps) = Deps(cst, u)
    /\ seen.sameAsReloaded            \* clause (ii): the incremental state equals a copy reloaded from the saved document
    /\ SchemaInv
\* C13 on recorded extractions (events "Extract": operation, selection, refused?, members, new aliases, statuses of the result)
PropExtract ==
  (seen # NoObs /\ "ext" \in DOMAIN seen) =>
    LET x == seen.ext  S == ToSet(x.sel)
        defined == IF x.op = "basis" THEN BasisDefined(cst, S) ELSE MaxPartDefined(cst, S)
    IN /\ seen.order = order                                   \* the source is untouched
       /\ defined => x.defined
       /\ (defined /\ x.defined) =>
            LET R == IF x.op = "basis" THEN Basis(cst, S) ELSE MaxPart(cst, S)
                ex == Extract(order, cst, R)
                an == Analysis(cst)
            IN /\ x.members = ex.order
               /\ x.aliases = [i \in DOMAIN ex.order |-> ex.cst[ex.order[i]].alias]
               /\ Captures(cst, R, ex) \/ x.oks = [i \in DOMAIN ex.order |-> an[cst[ex.order[i]].alias].ok]
TraceAccepted == TLCGet("stats").diameter - 1 = Len(TraceLog)
=============================================================================
