------------------------------- MODULE CGraph -------------------------------
(***************************************************************************)
(* The dependency graph of ConceptCore (ccl::graph::CGraph and its        *)
(* UpdatableGraph wrapper) as the mathematical directed graph it          *)
(* represents.  State = (nodes, edges, invalid); one action per public    *)
(* mutator; every public query is a derived operator.  Property C14.      *)
(***************************************************************************)
EXTENDS Naturals, Sequences, FiniteSets, SequencesExt

CONSTANTS Ids            \* identifier universe of the bounded model

VARIABLES nodes,         \* live items
          edges,         \* set of <<source, dest>>
          invalid        \* UpdatableGraph::IsBroken()

gvars == <<nodes, edges, invalid>>

-----------------------------------------------------------------------------
(* Derived queries: the mathematics the implementation must agree with.    *)
Succ(E, X) == {e[2] : e \in {f \in E : f[1] \in X}}
Pred(E, X) == {e[1] : e \in {f \in E : f[2] \in X}}

RECURSIVE ReachF(_, _)      \* reflexive-transitive forward closure of a set
ReachF(E, X) == LET Y == X \cup Succ(E, X) IN IF Y = X THEN X ELSE ReachF(E, Y)
RECURSIVE ReachB(_, _)
ReachB(E, X) == LET Y == X \cup Pred(E, X) IN IF Y = X THEN X ELSE ReachB(E, Y)

\* CGraph::ExpandOutputs / ExpandInputs ignore unknown items
ExpandOutputs(N, E, X) == ReachF(E, X \cap N)
ExpandInputs(N, E, X)  == ReachB(E, X \cap N)

PathPlus(E, a, b) == b \in ReachF(E, Succ(E, {a}))      \* a path of length >= 1
OnCycle(E, n)     == PathPlus(E, n, n)
HasLoop(N, E)     == \E n \in N : OnCycle(E, n)
SCC(E, n)         == {m \in ReachF(E, {n}) : n \in ReachF(E, {m})}
LoopGroups(N, E)  == {SCC(E, n) : n \in {m \in N : OnCycle(E, m)}}
InputsFor(N, E, n) == IF n \in N THEN Pred(E, {n}) ELSE {}

\* what a sequence must satisfy to be an admissible TopologicalOrder()
IsPermutationOf(seq, S) == /\ Len(seq) = Cardinality(S)
                           /\ {seq[i] : i \in DOMAIN seq} = S
RespectsEdges(seq, E) == \A i, j \in DOMAIN seq : <<seq[i], seq[j]>> \in E /\ i # j => i < j
TopoOK(N, E, seq) == IsPermutationOf(seq, N) /\ (~HasLoop(N, E) => RespectsEdges(seq, E))
\* Sort(S) preserves the order of `order`
IsSubSeqOf(sub, order, S) ==
  /\ IsPermutationOf(sub, S)
  /\ \A i, j \in DOMAIN sub : i < j =>
        \E p, q \in DOMAIN order : p < q /\ order[p] = sub[i] /\ order[q] = sub[j]

-----------------------------------------------------------------------------
GInit == nodes = {} /\ edges = {} /\ invalid = FALSE

AddItem(i) == nodes' = nodes \cup {i} /\ UNCHANGED <<edges, invalid>>

EraseItem(i) == /\ nodes' = nodes \ {i}
                /\ edges' = {e \in edges : e[1] # i /\ e[2] # i}
                /\ UNCHANGED invalid

AddConnection(i, j) == /\ nodes' = nodes \cup {i, j}
                       /\ edges' = edges \cup {<<i, j>>}
                       /\ UNCHANGED invalid

SetItemInputs(i, S) == /\ nodes' = nodes \cup {i} \cup S
                       /\ edges' = {e \in edges : e[2] # i} \cup {<<s, i>> : s \in S}
                       /\ UNCHANGED invalid

Clear == nodes' = {} /\ edges' = {} /\ UNCHANGED invalid

Invalidate == invalid' = TRUE /\ UNCHANGED <<nodes, edges>>
SetValid   == invalid' = FALSE /\ UNCHANGED <<nodes, edges>>
\* the updater callback belongs to the environment: it may answer any set S
UpdateFor(i, S) == IF invalid THEN UNCHANGED gvars ELSE SetItemInputs(i, S)

GNext == \/ \E i \in Ids : AddItem(i) \/ EraseItem(i)
         \/ \E i, j \in Ids : AddConnection(i, j)
         \/ \E i \in Ids, S \in SUBSET Ids : SetItemInputs(i, S) \/ UpdateFor(i, S)
         \/ Clear \/ Invalidate \/ SetValid

GSpec == GInit /\ [][GNext]_gvars

-----------------------------------------------------------------------------
(* Model-internal theorems (checked by TLC in MC_C14.cfg)                  *)
TypeOK == /\ nodes \subseteq Ids
          /\ edges \subseteq nodes \X nodes       \* edges only between live nodes
          /\ invalid \in BOOLEAN

ClosureLaws ==
  \A X \in SUBSET Ids :
     LET F == ExpandOutputs(nodes, edges, X)
         B == ExpandInputs(nodes, edges, X) IN
     /\ X \cap nodes \subseteq F /\ F \subseteq nodes
     /\ ExpandOutputs(nodes, edges, F) = F              \* idempotent
     /\ ExpandInputs(nodes, edges, B) = B
     /\ \A Y \in SUBSET X : ExpandOutputs(nodes, edges, Y) \subseteq F   \* monotone
     /\ \A a \in nodes : (a \in B) <=> (ExpandOutputs(nodes, edges, {a}) \cap (X \cap nodes) # {})  \* duality

LoopLaws ==
  LET G == LoopGroups(nodes, edges) IN
  /\ \A g, h \in G : g = h \/ g \cap h = {}                     \* groups are disjoint
  /\ UNION G = {n \in nodes : OnCycle(edges, n)}                \* and cover exactly the cyclic part
  /\ (G # {}) <=> HasLoop(nodes, edges)
  /\ \A g \in G : \A a, b \in g : PathPlus(edges, a, b)

\* an acyclic graph always has an admissible order (so TopoOK is satisfiable)
TopoExists ==
  ~HasLoop(nodes, edges) =>
     \E f \in [nodes -> 1..Cardinality(nodes)] :
        /\ \A a, b \in nodes : a # b => f[a] # f[b]
        /\ \A e \in edges : f[e[1]] < f[e[2]]

\* step properties
InputsReplaced ==   \* SetItemInputs replaces exactly the inputs of one item
  [][\A i \in Ids, S \in SUBSET Ids :
        SetItemInputs(i, S) => /\ InputsFor(nodes', edges', i) = S
                               /\ \A k \in nodes \ {i} : InputsFor(nodes', edges', k) = InputsFor(nodes, edges, k)]_gvars
EraseUnlinks ==
  [][\A i \in Ids : EraseItem(i) => /\ i \notin nodes'
                                    /\ \A e \in edges' : e[1] # i /\ e[2] # i
                                    /\ edges' = edges \cap (nodes' \X nodes')]_gvars
=============================================================================
