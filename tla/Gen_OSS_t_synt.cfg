CONSTANTS MaxLen = 4
MaxPict = 4
Preset = "synt"
SPECIFICATION Spec
INVARIANT StructureInv
INVARIANT FreshInv
CONSTRAINT Emit
