CONSTANTS ConstIds = {"C1", "C2", "C3"}
MaxLen = 5
MaxCst = 3
Preset = "dups"
SPECIFICATION Spec
INVARIANT SchemaInv
CONSTRAINT Emit
