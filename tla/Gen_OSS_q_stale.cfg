CONSTANTS MaxLen = 3
MaxPict = 4
Preset = "stale"
SPECIFICATION Spec
INVARIANT StructureInv
INVARIANT FreshInv
CONSTRAINT Emit
