------------------------------- MODULE Gen_C17 ------------------------------
(* Spec -> code for C17.                                                       *)
(*  mode "text": every text of <= MaxAtoms atoms over Atoms (each atom is a     *)
(*     short code-point sequence: markers, field separators, entity names,      *)
(*     tags, offsets, multi-byte plain text) with the predicted references,     *)
(*     resolutions, canonical spelling, mentioned entities and renaming.        *)
(*  mode "mgr":  histories of Insert / EraseIn on a manager that resolved a     *)
(*     text of the pool, with the model's prediction of every call.             *)
EXTENDS Refs, TLC, Json
CONSTANTS MaxAtoms, MaxOps, AtomSet, WithMgr

\* the atoms (index -> code points); AtomSet selects which are used by a configuration
Atom == <<
  <<64>>, <<123>>, <<125>>, <<124>>,                    \*  1 @   2 {   3 }   4 |
  <<88, 49>>, <<88, 57>>, <<88, 50>>, <<88, 51>>,        \*  5 X1  6 X9 (missing)  7 X2 (empty term)  8 X3 (manual form)
  <<110, 111, 109, 110>>,                                \*  9 nomn
  <<115, 105, 110, 103, 44, 100, 97, 116, 118>>,         \* 10 sing,datv
  <<122, 122, 122, 122>>,                                \* 11 zzzz (unknown tag)
  <<49>>, <<45, 49>>, <<50>>, <<48>>,                    \* 12 1  13 -1  14 2  15 0
  <<57, 57, 57, 57, 57, 57, 57, 57, 57, 57, 57>>,        \* 16 99999999999
  <<97>>, <<32>>, <<233>>, <<8492>>, <<132878>>,         \* 17 a  18 space  19 e-acute (2 bytes)  20 script B (3)  21 4-byte
  <<64, 123, 88, 49, 124, 110, 111, 109, 110, 125>>,     \* 22 @{X1|nomn}
  <<64, 123, 88, 51, 124, 100, 97, 116, 118, 44, 115, 105, 110, 103, 125>>,   \* 23 @{X3|datv,sing} (non-canonical tag order)
  <<64, 123, 88, 57, 124, 112, 108, 117, 114, 125>>,     \* 24 @{X9|plur}
  <<64, 123, 88, 50, 124, 110, 111, 109, 110, 125>>,     \* 25 @{X2|nomn}
  <<64, 123, 49, 124, 100, 101, 112, 125>>,              \* 26 @{1|dep}
  <<64, 123, 45, 49, 124, 100, 233, 112, 125>>,          \* 27 @{-1|dep} with a 2-byte letter
  <<64, 123, 50, 124, 100, 125>>,                        \* 28 @{2|d}
  <<64, 123, 48, 124, 100, 125>>,                        \* 29 @{0|d}
  <<64, 123, 88, 49, 124, 110, 111, 109, 110, 124, 115, 105, 110, 103, 125>>,  \* 30 @{X1|nomn|sing}
  <<64, 123, 88, 49, 124, 110, 111, 109, 110, 124, 49, 125>>,                  \* 31 @{X1|nomn|1} (legacy trailing number)
  <<64, 123, 88, 49, 49, 124, 110, 111, 109, 110, 125>>, \* 32 @{X11|nomn}
  <<64, 123, 49, 124, 125>>,                             \* 33 @{1|} (empty collaboration text)
  <<64, 123, 57, 57, 57, 57, 57, 57, 57, 57, 57, 57, 57, 124, 97, 125>>,       \* 34 @{99999999999|a} (offset beyond 32 bits)
  <<64, 123, 88, 49, 124, 110, 111, 109, 110, 124, 125>>,                      \* 35 @{X1|nomn|} (empty last field)
  <<64, 123, 52, 48, 48, 48, 48, 124, 100, 125>>,                              \* 36 @{40000|d} (offset beyond 16 bits)
  <<64, 123, 88, 49, 124, 32, 110, 111, 109, 110, 32, 44, 122, 122, 122, 122, 44, 115, 105, 110, 103, 125>>,  \* 37 @{X1| nomn ,zzzz,sing}
  <<64, 123, 88, 52, 124, 110, 111, 109, 110, 125>>      \* 38 @{X4|nomn}: resolves to a text of the same length (10) as the reference
>>

Ctx == (<<88, 49>> :> [nominal |-> <<1095, 1077, 1083, 1086, 1074, 1077, 1082>>, manual |-> <<>>])
    @@ (<<88, 50>> :> [nominal |-> <<>>, manual |-> <<>>])
    @@ (<<88, 51>> :> [nominal |-> <<116, 51>>, manual |-> ({25, 32} :> <<1083, 1102, 1076, 1103, 1084>>)])
    @@ (<<88, 52>> :> [nominal |-> <<97, 98, 99, 100, 101, 102, 103, 104, 105, 233>>, manual |-> <<>>])
RenameMap == (<<88, 49>> :> <<88, 49, 49>>) @@ (<<88, 51>> :> <<88, 49>>) @@ (<<88, 50>> :> <<88, 50>>)

VARIABLES mode, atoms, ranges, hist, len
vars == <<mode, atoms, ranges, hist, len>>

RECURSIVE Flatten(_)
Flatten(q) == IF q = <<>> THEN <<>> ELSE Atom[Head(q)] \o Flatten(Tail(q))

\* texts the manager histories start from (atom sequences)
MgrPool == IF WithMgr THEN {<<17, 22, 17>>, <<26, 17, 23>>, <<23, 17, 17, 27>>, <<17, 17, 17>>} ELSE {}
\* texts the same manager may be asked to resolve later (a longer one with a same-length resolution included)
ResolvePool == MgrPool \cup {<<22, 17, 38, 17, 38>>}
Resolution(refs, i) ==     \* the text a reference resolves to, placeholders in today's wording (drift level)
  LET k == ResolutionKind(refs, i, Ctx) IN
  IF k = "form" THEN ResolutionText(refs, i, Ctx)
  ELSE IF k = "empty" THEN <<33, 69, 109, 112, 116, 121, 32, 114, 101, 102, 101, 114, 101, 110, 99, 101, 33>>
  ELSE IF k = "missing" THEN <<33, 67, 97, 110, 110, 111, 116, 32, 102, 105, 110, 100, 32, 101, 110, 116, 105, 116, 121, 58, 32, 39>>
                             \o refs[i].name \o <<39, 33>>            \* !Cannot find entity: 'NAME'!
  ELSE <<33, 73, 110, 118, 97, 108, 105, 100, 32, 111, 102, 102, 115, 101, 116, 32, 102, 111, 114, 32>> \o refs[i].name
         \o <<58, 32, 39>> \o Int2Str(refs[i].off) \o <<39, 33>>       \* !Invalid offset for TEXT: 'k'!
InitRanges(q) == LET s == Flatten(q)  refs == Extract(s)  res == [i \in DOMAIN refs |-> Resolution(refs, i)]
                 IN [i \in DOMAIN refs |-> ResolvedRange(refs, res, i)]
InitLen(q) == LET s == Flatten(q)  refs == Extract(s)  res == [i \in DOMAIN refs |-> Resolution(refs, i)]
              IN Len(ResolvedFrom(s, refs, res, 1))

Init == \/ mode = "text" /\ atoms = <<>> /\ ranges = <<>> /\ hist = <<>> /\ len = 0
        \/ mode = "mgr" /\ atoms \in MgrPool /\ ranges = InitRanges(atoms) /\ hist = <<>> /\ len = InitLen(atoms)

InsLen(which) == IF which = 22 THEN 7 ELSE 5        \* @{X1|nomn} resolves to 7 code points, @{X3|datv,sing} to 5
Next ==
  \/ /\ mode = "text" /\ Len(atoms) < MaxAtoms /\ \E a \in AtomSet : atoms' = Append(atoms, a)
     /\ UNCHANGED <<mode, ranges, hist, len>>
  \/ /\ mode = "mgr" /\ Len(hist) < MaxOps /\ UNCHANGED <<mode, atoms>>
     /\ \/ \E pos \in 0..len, which \in {22, 23} :
             LET ok == InsertAllowed(ranges, pos) IN
             /\ len <= 16             \* range operations are enumerated on the short texts only
             /\ ranges' = IF ok THEN InsertRange(ranges, pos, InsLen(which)) ELSE ranges
             /\ len' = IF ok THEN len + InsLen(which) ELSE len
             /\ hist' = Append(hist, [op |-> "Insert", a |-> pos, b |-> which, x |-> FALSE, ok |-> ok, r |-> [s |-> 0, f |-> 0], ranges |-> ranges', cps |-> <<>>])
        \/ \E q \in ResolvePool :   \* the same manager resolves another text: nothing of the previous one may survive
             /\ ranges' = InitRanges(q) /\ len' = InitLen(q)
             /\ hist' = Append(hist, [op |-> "Resolve", a |-> 0, b |-> 0, x |-> FALSE, ok |-> TRUE, r |-> [s |-> 0, f |-> 0],
                                      ranges |-> ranges', cps |-> Flatten(q)])
        \/ \E a \in 0..len, b \in 0..len, x \in BOOLEAN :
             /\ a <= b /\ len <= 16
             /\ LET e == EraseIn(ranges, [s |-> a, f |-> b], x) IN
                /\ ranges' = e.ranges
                /\ len' = IF e.ok THEN len - (e.rng.f - e.rng.s) ELSE len
                /\ hist' = Append(hist, [op |-> "Erase", a |-> a, b |-> b, x |-> x, ok |-> e.ok, r |-> e.rng, ranges |-> e.ranges, cps |-> <<>>])
Spec == Init /\ [][Next]_vars

\* model-internal: the manager's range invariants are preserved by the modelled operations
RangesOK == mode = "mgr" => Ordered(ranges) /\ NonEmptyRanges(ranges) /\ (ranges # <<>> => ranges[Len(ranges)].f <= len /\ ranges[1].s >= 0)
ContractOK == (mode = "mgr" /\ hist # <<>> /\ hist[Len(hist)].op = "Erase" /\ hist[Len(hist)].ok) =>
   LET before == IF Len(hist) = 1 THEN InitRanges(atoms) ELSE hist[Len(hist) - 1].ranges
   IN EraseContract(before, hist[Len(hist)].r, ranges)

TextCase ==
  LET s == Flatten(atoms)
      refs == Extract(s)
  IN [kind |-> "text", cps |-> s, unterminated |-> Unterminated(s, 1),
      refs |-> [i \in DOMAIN refs |->
                  [k |-> refs[i].kind, name |-> refs[i].name, form |-> SetToSortSeq(refs[i].form, <), off |-> refs[i].off,
                   s |-> refs[i].s, f |-> refs[i].f, spell |-> Spelling(refs[i]),
                   rk |-> ResolutionKind(refs, i, Ctx),
                   rt |-> IF ResolutionKind(refs, i, Ctx) = "form" THEN ResolutionText(refs, i, Ctx) ELSE <<>>]],
      canon |-> Canonical(s, refs, 1),
      referals |-> SetToSeq(Referals(s)),
      renamed |-> TranslateRaw(s, RenameMap)]
MgrCase == [kind |-> "mgr", cps |-> Flatten(atoms), init |-> InitRanges(atoms), hist |-> hist]
Emit == PrintT(<<"CASE", ToJson(IF mode = "text" THEN TextCase ELSE MgrCase)>>)
=============================================================================
