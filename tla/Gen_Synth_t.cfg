CONSTANTS ConstIds = {"C1", "C2", "C3"}
MaxA = 3
MaxB = 3
MaxPairs = 2
Modes = {"synth", "equate"}
SPECIFICATION Spec
INVARIANT ContractHolds
CONSTRAINT Emit
