CONSTANTS ConstIds = {"C1"}
SPECIFICATION Spec
INVARIANT Sound
CONSTRAINT Emit
