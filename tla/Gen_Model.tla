------------------------------- MODULE Gen_Model ----------------------------
(* Spec -> code generator for C11 (and the model half of C10): every history of at most MaxLen  *)
(* calls of the model's mutators and calculation requests from a small start model, with the    *)
(* predicted content (aliases, verdicts, base keys, structure data) and Fresh - the value every  *)
(* calculable constituent must show if it shows a calculated value at all.                       *)
EXTENDS Model, Json
CONSTANTS MaxLen, MaxCst, Preset
VARIABLE hist
vars == <<order, cst, trk, keys, sdata, hist>>

G1(n) == Glob(n)
La == Loc("a")
DefPool == <<
  NoDef,                                                                                  \*  1
  G1("X1"),                                                                               \*  2
  G1("D1"),                                                                               \*  3
  G1("D2"),                                                                               \*  4
  Node("SET_MINUS", <<G1("X1"), G1("D1")>>),                                              \*  5
  Node("UNION", <<G1("D1"), G1("D2")>>),                                                  \*  6
  G1("D3"),                                                                               \*  7 missing name
  Node("DECLARATIVE", <<La, G1("X1"), Node("NOTIN", <<La, G1("D2")>>)>>),                 \*  8
  Idx("BIGPR", <<1>>, <<G1("S1")>>),                                                      \*  9 depends on the structure
  Node("EQUAL", <<G1("D1"), G1("X1")>>),                                                  \* 10 statement
  Node("BOOLEAN", <<Node("DECART", <<G1("X1"), G1("X1")>>)>>),                            \* 11 structure domain B(X1*X1)
  Node("BOOLEAN", <<G1("X1")>>),                                                          \* 12 structure domain B(X1)
  Node("DEBOOL", <<G1("D1")>>),                                                           \* 13 fails unless D1 is a singleton
  Node("INTERSECTION", <<Idx("BIGPR", <<2>>, <<G1("S1")>>), G1("D1")>>),                  \* 14
  G1("X2"),                                                                               \* 15 a base set that may not exist (yet)
  Node("UNION", <<G1("X2"), G1("X1")>>),                                                  \* 16
  Node("FUNCDEF", <<Node("ARGS", <<Node("ARG", <<La, Node("BOOLEAN", <<G1("X1")>>)>>)>>), Node("UNION", <<La, G1("X1")>>)>>),       \* 17 [a in B(X1)] a u X1
  Call("F1", <<G1("X1")>>),                                                               \* 18
  Node("FUNCDEF", <<Node("ARGS", <<Node("ARG", <<La, Node("BOOLEAN", <<G1("X1")>>)>>)>>), Node("SET_MINUS", <<G1("X1"), La>>)>>),   \* 19 [a in B(X1)] X1 \ a
  Node("FUNCDEF", <<Node("ARGS", <<Node("ARG", <<La, Node("BOOLEAN", <<G1("X1")>>)>>)>>), Node("ENUM", <<La>>)>>),                  \* 20 [a in B(X1)] {a} (another typification)
  Call("F1", <<G1("D1")>>),                                                               \* 21
  Call("F1", <<Node("SET_MINUS", <<G1("X1"), G1("X1")>>)>>),                              \* 22 F1 of the empty set
  Node("BOOLEAN", <<G1("X2")>>),                                                          \* 23 structure domain over a base set that may not exist (yet)
  G1("S1"),                                                                               \* 24 the structure's data
  Idx("BIGPR", <<2>>, <<G1("S1")>>)                                                       \* 25 differs from 9 only in the index
>>
Toks(d) == IF d = NoDef THEN <<>> ELSE Render(d, 0).t
Fresh1 == CHOOSE u \in 1..(MaxCst + 6) : u \notin Ids /\ \A v \in 1..(MaxCst + 6) : v \notin Ids => u <= v

\* presets: "terms" (definitions over X1, D1, D2), "struct" (structure S1 with data and projections of it),
\* "late" (D1 := X2 is defined before the base set X2 exists; base sets are inserted and erased during the history)
\* "lates" (as "late", and a structure S1 : B(X2) is created before or after X2, given data, X2 erased and created again)
\* "func" (a term-function F1 whose body is edited while terms that call it, directly or through another term, are calculated)
TermDefs == CASE Preset = "struct" -> {2, 3, 9, 14, 25} [] Preset = "late" -> {3, 15, 16} [] Preset = "lates" -> {24} [] Preset = "func" -> {2, 18, 21, 22} [] OTHER -> {2, 3, 4, 5, 6, 7, 8, 13}
EditDefs == CASE Preset = "struct" -> {2, 9, 14, 25} [] Preset = "late" -> {2, 15, 16} [] Preset = "lates" -> {} [] Preset = "func" -> {2, 18, 21} [] OTHER -> {2, 3, 4, 5, 6, 8, 13}
FuncEditDefs == IF Preset = "func" THEN {17, 19, 20} ELSE {}
\* (incl. same-size replacements that differ only in an interior key: {1,2,4} / {1,3,4})
KeySets == IF Preset = "lates" THEN {{1}, {1, 2}} ELSE IF Preset \in {"struct", "late", "func"} THEN {{1}, {1, 3}, {2, 3}} ELSE (SUBSET {1, 2, 3}) \cup {{1, 2, 4}, {1, 3, 4}}
\* data offered to the structure S1 : B(X1*X1)
DataPool == IF Preset = "lates" THEN {{1}, {1, 2}} ELSE {{}, {<<1, 1>>, <<1, 2>>}, {<<2, 1>>}, {<<1, 3>>, <<3, 3>>}}

Op(o) == [op |-> o, u |-> 0, k |-> "", fresh |-> 0, d |-> <<>>, hasdef |-> FALSE, ks |-> <<>>, data |-> <<>>]
Step(A, rec) == A /\ hist' = Append(hist, rec)
EncPairs(S) == IF Preset = "lates" THEN SetToSeq(S) ELSE SetToSeq({<<p[1], p[2]>> : p \in S})

\* the start model: X1 = {1, 2}; S1 : B(X1*X1) with two pairs (struct preset); D1 := X1; D2 := D1
Start ==
  /\ order = IF Preset \in {"struct", "func"} THEN <<1, 2, 3, 4>> ELSE <<1, 3, 4>>
  /\ cst = (1 :> NewRec("X1", "base", NoDef)) @@ (3 :> NewRec("D1", "term", DefPool[CASE Preset \in {"late", "lates"} -> 15 [] Preset = "func" -> 18 [] OTHER -> 2])) @@ (4 :> NewRec("D2", "term", DefPool[3]))
           @@ (IF Preset = "struct" THEN (2 :> NewRec("S1", "structured", DefPool[11])) ELSE <<>>)
           @@ (IF Preset = "func" THEN (2 :> NewRec("F1", "function", DefPool[17])) ELSE <<>>)
  /\ trk = <<>>
  /\ keys = (1 :> {1, 2})
  /\ sdata = IF Preset = "struct" THEN (2 :> {<<1, 1>>, <<1, 2>>}) ELSE <<>>
Init == Start /\ hist = <<>>

Next ==
  /\ Len(hist) < MaxLen
  /\ \/ /\ Cardinality(Ids) < MaxCst
        /\ \E i \in TermDefs : Step(MEmplace("term", DefPool[i], Fresh1), [Op("Emplace") EXCEPT !.k = "term", !.d = Toks(DefPool[i]), !.hasdef = TRUE, !.fresh = Fresh1])
     \/ /\ Cardinality(Ids) < MaxCst /\ Preset \in {"late", "lates"}
        /\ Step(MEmplace("base", NoDef, Fresh1), [Op("Emplace") EXCEPT !.k = "base", !.fresh = Fresh1])
     \/ /\ Cardinality(Ids) < MaxCst /\ Preset = "lates" /\ StructIds = {}
        /\ Step(MEmplace("structured", DefPool[23], Fresh1), [Op("Emplace") EXCEPT !.k = "structured", !.d = Toks(DefPool[23]), !.hasdef = TRUE, !.fresh = Fresh1])
     \/ /\ Cardinality(Ids) < MaxCst /\ Preset = "terms"
        /\ Step(MEmplace("axiom", DefPool[10], Fresh1), [Op("Emplace") EXCEPT !.k = "axiom", !.d = Toks(DefPool[10]), !.hasdef = TRUE, !.fresh = Fresh1])
     \/ \E u \in Ids : (cst[u].kind \notin {"base", "function"} \/ (Preset \in {"late", "lates"} /\ u # 1)) /\ Step(MErase(u), [Op("Erase") EXCEPT !.u = u])
     \/ \E u \in Ids, i \in EditDefs : cst[u].kind \in {"term"} /\ Step(MSetExpression(u, DefPool[i]), [Op("SetExpression") EXCEPT !.u = u, !.d = Toks(DefPool[i]), !.hasdef = TRUE])
     \/ \E u \in Ids, i \in FuncEditDefs : cst[u].kind = "function" /\ Step(MSetExpression(u, DefPool[i]), [Op("SetExpression") EXCEPT !.u = u, !.d = Toks(DefPool[i]), !.hasdef = TRUE])
     \/ \E u \in BaseIds : Cardinality(keys[u]) < 3 /\ Step(AddBasicElement(u), [Op("AddBasicElement") EXCEPT !.u = u])
     \/ \E u \in BaseIds, K \in KeySets : Step(SetBasicText(u, K), [Op("SetBasicText") EXCEPT !.u = u, !.ks = SetToSeq(K)])
     \/ \E u \in StructIds, v \in DataPool : Step(SetStructureData(u, v), [Op("SetStructureData") EXCEPT !.u = u, !.data = EncPairs(v)])
     \/ \E u \in BaseIds \cup StructIds : Step(ResetDataFor(u), [Op("ResetDataFor") EXCEPT !.u = u])
     \/ \E u \in Ids : Calculable(u) /\ Step(Calculate(u), [Op("Calculate") EXCEPT !.u = u])
     \/ Step(RecalculateAll, Op("RecalculateAll"))
Spec == Init /\ [][Next]_vars

RECURSIVE EncU(_, _)
EncU(v, t) ==
  CASE t.k \in {"Z", "base", "logic", "rad"} -> v
    [] t.k = "tuple" -> [t |-> [i \in 1..Len(t.c) |-> EncU(v[i], t.c[i])]]
    [] t.k = "bool" -> [s |-> SetToSeq({EncU(x, t.c[1]) : x \in v})]
    [] OTHER -> [s |-> <<>>]
Obs ==
  LET an == Analysis(cst)  fr == Fresh IN
  [order |-> order,
   items |-> [i \in DOMAIN order |->
      LET u == order[i]  c == cst[u]  r == an[c.alias] IN
      [uid |-> u, alias |-> c.alias, kind |-> c.kind, d |-> Toks(c.def), ok |-> r.ok,
       type |-> IF r.ok THEN TypeStr(r.type) ELSE "",
       keys |-> IF u \in DOMAIN keys THEN SetToSeq(keys[u]) ELSE <<>>,
       hasFresh |-> c.alias \in DOMAIN fr,
       fresh |-> IF c.alias \in DOMAIN fr /\ r.ok THEN <<EncU(fr[c.alias], r.type)>> ELSE <<>>]]]
Emit == PrintT(<<"CASE", ToJson([preset |-> Preset, hist |-> hist, obs |-> Obs])>>)
=============================================================================
