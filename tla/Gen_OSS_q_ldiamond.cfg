CONSTANTS MaxLen = 3
MaxPict = 4
Preset = "ldiamond"
SPECIFICATION Spec
INVARIANT StructureInv
INVARIANT FreshInv
CONSTRAINT Emit
