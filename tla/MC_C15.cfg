SPECIFICATION Spec
INVARIANTS StrictTotalOrder SortLaws
