SPECIFICATION TSpec
INVARIANT PropC17
POSTCONDITION TraceAccepted
CHECK_DEADLOCK FALSE
