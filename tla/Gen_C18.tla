------------------------------- MODULE Gen_C18 ------------------------------
(***************************************************************************)
(* C18: a long-lived analyser is specified as STATELESS - the observable   *)
(* of call k is a function of input k and the context only:                *)
(*        out[k] = F(in[k], ctx)                                           *)
(* so a reused object must answer exactly like a freshly constructed one.  *)
(* The generator enumerates every sequence of at most MaxLen inputs from a *)
(* pool of "state-leaving predecessors": function definitions (declared    *)
(* arguments), multi-line text (line base), inputs failing in the lexer,   *)
(* the parser, the checker inside nested scopes and the evaluator,         *)
(* iteration-limit failures, long successful evaluations, declarations.    *)
(***************************************************************************)
EXTENDS Integers, Sequences, TLC, Json
CONSTANTS MaxLen

In(t, m) == [t |-> t, math |-> m, auto |-> FALSE]
Auto(t, m) == [t |-> t, math |-> m, auto |-> TRUE]        \* spelt in MATH / ASCII but given without a syntax hint (the analyser guesses)
Pool == <<
  In(<<"$X1", "EQUAL", "$X1">>, TRUE),
  In(<<"$X1", "EQUAL", "$X1">>, FALSE),
  In(<<"[", "$a", "IN", "BOOLEAN", "(", "$X1", ")", "]", "{", "$a", "}">>, TRUE),                        \* function definition: leaves declared arguments
  In(<<"[", "$a", "IN", "BOOLEAN", "(", "$X1", ")", ",", "$b", "IN", "$X1", "]", "$a", "SET_MINUS", "{", "$b", "}">>, FALSE),
  In(<<"[", "$a", "IN", "BOOLEAN", "(", "$R1", ")", "]", "$a">>, TRUE),                                  \* templated definition (radical)
  In(<<"[", "$a", "IN", "BOOLEAN", "(", "$X1", ")", ",", "$b", "IN", "$D7", "]", "$a">>, TRUE),          \* fails in the argument list after one accepted argument
  In(<<"[", "$c", "IN", "$X1", ",", "$c", "IN", "$X1", "]", "$c">>, FALSE),                              \* duplicate argument name
  In(<<"$X1", "EQUAL", "$X1", "AND", "~0A", "$X1", "NOTEQUAL", "$X1", "~0A", "OR", "$X1", "EQUAL", "$X1">>, TRUE),   \* multi-line text: line base
  In(<<"$X1", "UNION", "~0A", "~0A", "(", "$X1">>, TRUE),                                                \* multi-line and failing
  In(<<"$X1", "~80">>, TRUE),                                                                             \* fails in the lexer
  In(<<"$X1", "UNION", "~FF", "$X1">>, FALSE),
  In(<<"FORALL", "$a", "IN", "$X1", "(", "$a", "EQUAL">>, TRUE),                                          \* fails in the parser, scope open
  In(<<"DECLARATIVE", "{", "$a", "IN", "$X1", "|", "FORALL", "$b", "IN", "$X1", "$b", "EQUAL">>, FALSE),
  In(<<"FORALL", "$a", "IN", "$X1", "FORALL", "$b", "IN", "$X1", "(", "$a", "EQUAL", "$b", "AND", "$c", "EQUAL", "$a", ")">>, TRUE),   \* fails in the checker inside nested scopes
  In(<<"FORALL", "$a", "IN", "$X1", "FORALL", "$a", "IN", "$X1", "$a", "EQUAL", "$a">>, TRUE),           \* shadowing error
  In(<<"FORALL", "$a", "IN", "$X1", "$a", "EQUAL", "$a">>, TRUE),
  In(<<"$a", "EQUAL", "$a">>, TRUE),                                                                      \* undeclared local
  In(<<"EXISTS", "$a", ",", "$b", "IN", "$X1", "$a", "NOTEQUAL", "$b">>, FALSE),
  In(<<"DEBOOL", "(", "$X1", ")">>, TRUE),                                                                \* fails in the evaluator (two elements)
  In(<<"DECLARATIVE", "{", "$a", "IN", "$X1", "|", "DEBOOL", "(", "$X1", ")", "EQUAL", "$a", "}">>, TRUE),
  In(<<"RECURSIVE", "{", "$a", "ASSIGN", "#1", "|", "$a", "PLUS", "#1", "}">>, TRUE),                      \* iteration limit
  In(<<"RECURSIVE", "{", "$a", "ASSIGN", "#0", "|", "$a", "LESSER", "#300", "|", "$a", "PLUS", "#1", "}">>, TRUE),   \* many iterations, succeeds
  In(<<"CARD", "(", "BOOLEAN", "(", "$X1", ")", "DECART", "BOOLEAN", "(", "$X1", ")", ")">>, TRUE),
  In(<<"IMPERATIVE", "{", "(", "$a", ",", "$b", ")", "|", "$a", "ITERATE", "$X1", ";", "$b", "ASSIGN", "$a", "}">>, TRUE),
  In(<<"IMPERATIVE", "{", "$a", "|", "$a", "ITERATE", "$X1", ";", "$a", "ITERATE", "$X1", "}">>, FALSE), \* redeclaration inside a block
  In(<<"$D1", "DEFINE", "$X1", "SET_MINUS", "$X1">>, TRUE),                                               \* global declarations
  In(<<"$S5", "STRUCT", "BOOLEAN", "(", "$X1", "DECART", "$X1", ")">>, TRUE),
  In(<<"$X7", "DEFINE">>, TRUE),
  In(<<"$F1", "[", "$X1", "]">>, TRUE),                                                                    \* call of a term-function (normaliser)
  In(<<"$F1", "[", "$F1", "[", "$X1", "]", "]">>, FALSE),
  In(<<"$P1", "[", "$X1", "]", "AND", "NOT", "$P1", "[", "EMPTY", "]">>, TRUE),
  In(<<"FILTER@1,2", "[", "$X1", ",", "$X1", "]", "(", "$S1", ")">>, TRUE),
  In(<<"BIGPR@3", "(", "$S1", ")">>, TRUE),                                                                \* index out of range
  In(<<"$X1", "PLUS", "#1">>, TRUE),
  In(<<"#2147483648">>, TRUE),
  In(<<>>, TRUE),                                                                                          \* empty input
  In(<<"~09">>, FALSE),
  In(<<"$A1">>, TRUE),
  In(<<"$X1", "IN", "$A1">>, TRUE),
  In(<<"(", "$X1", "DECART", "$X1", ")", "DECART", "$X1">>, FALSE),
  In(<<"$%g01", "EQUAL", "$%g01">>, TRUE),
  In(<<"DECLARATIVE", "{", "(", "$a", ",", "$b", ")", "IN", "$S1", "|", "$a", "EQUAL", "$b", "}">>, TRUE),
  Auto(<<"$X1", "UNION", "$X1">>, TRUE),                                                                   \* un-hinted inputs: the guess must not depend on the predecessor
  Auto(<<"$X1", "DECART", "$X1">>, FALSE),
  Auto(<<"$X1", "UNION", "$X1">>, FALSE),
  In(<<"$F2", "[", "BOOLEAN", "(", "$X1", ")", "]">>, TRUE),                                               \* a property argument where the callee needs a value: the audit fails inside the callee
  In(<<"$F2", "[", "$X1", "]">>, TRUE)
>>

VARIABLE hist
Init == hist = <<>>
Next == Len(hist) < MaxLen /\ \E i \in DOMAIN Pool : hist' = Append(hist, i)
Spec == Init /\ [][Next]_hist
Emit == hist # <<>> => PrintT(<<"CASE", ToJson([kind |-> "reuse", seq |-> [k \in DOMAIN hist |-> Pool[hist[k]]]])>>)
=============================================================================
