SPECIFICATION TSpec
INVARIANT PropC16
POSTCONDITION TraceAccepted
CHECK_DEADLOCK FALSE
