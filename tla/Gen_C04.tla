------------------------------- MODULE Gen_C04 ------------------------------
(***************************************************************************)
(* Spec -> code generator for C04: the input language of "arbitrary input" *)
(* is sequences over the lexical alphabet Sigma (every token of both       *)
(* syntaxes, identifiers of every constituent kind, literals incl. out of  *)
(* range ones, junk bytes), and the one-edit neighbourhood of valid        *)
(* renderings (delete / replace / insert / duplicate / transpose a token). *)
(* The postcondition every public entry point must meet is Post (below);   *)
(* it is what Trace_C04 checks on recorded calls.                          *)
(***************************************************************************)
EXTENDS Gen_Syntax
CONSTANTS MaxSeq,        \* length of free token sequences
          SeqAlphabet,   \* "full" | "core"
          EditTrees      \* "none" | "ctor" | "all": which valid renderings are edited

Ops == {"PLUS", "MINUS", "MULTIPLY", "GREATER", "LESSER", "GREATER_OR_EQ", "LESSER_OR_EQ", "EQUAL", "NOTEQUAL",
        "FORALL", "EXISTS", "NOT", "AND", "OR", "IMPLICATION", "EQUIVALENT", "IN", "NOTIN", "SUBSET", "SUBSET_OR_EQ",
        "NOTSUBSET", "DECART", "UNION", "INTERSECTION", "SET_MINUS", "SYMMINUS", "BOOLEAN", "CARD", "BOOL", "DEBOOL",
        "REDUCE", "DECLARATIVE", "RECURSIVE", "IMPERATIVE", "ITERATE", "ASSIGN", "DEFINE", "STRUCT",
        "BIGPR@1", "SMALLPR@1,2", "FILTER@1", "FILTER@1,2"}
Punct == {"(", ")", "{", "}", "[", "]", "|", ",", ";"}
Idents == {"$X1", "$C1", "$S1", "$D1", "$F1", "$P1", "$A1", "$T1", "$R1", "$a", "$%g01", "$x_1", "$X99"}
Lits == {"#0", "#1", "#2147483647", "#2147483648", "#99999999999", "EMPTY", "INTSET"}
\* raw byte atoms: lone continuation byte, truncated 2/3/4-byte leads, 0xFF, over-long C0 AF, NUL, CR, LF, TAB, a 4-byte code point
Junk == {"~80", "~C3", "~E288", "~F09F", "~FF", "~C0AF", "~00", "~0D", "~0A", "~09", "~F09F9880", "~5C", "~40", "~3A"}
SigmaFull == Ops \cup Punct \cup Idents \cup Lits \cup Junk
SigmaCore == {"UNION", "DECART", "IN", "EQUAL", "AND", "NOT", "FORALL", "BOOLEAN", "CARD", "DEBOOL", "DECLARATIVE", "RECURSIVE", "IMPERATIVE",
              "ASSIGN", "ITERATE", "DEFINE", "STRUCT", "BIGPR@1", "FILTER@1", "(", ")", "{", "}", "[", "]", "|", ",", ";",
              "$X1", "$S1", "$F1", "$P1", "$A1", "$a", "#1", "#2147483648", "EMPTY", "INTSET", "~80", "~F09F", "~00"}
Sigma == IF SeqAlphabet = "full" THEN SigmaFull ELSE SigmaCore
EditTokens == {"(", ")", "{", "}", "|", ",", "UNION", "IN", "AND", "NOT", "$X1", "$a", "$A1", "#1", "EMPTY", "DEFINE", "ASSIGN", "~80", "~00", "SMALLPR@0", "BIGPR@0,0"}

\* schema documents for the JSON entry points: one field of one record (0 = the document itself) damaged in one way
JFields == {"items", "type", "title", "alias", "comment", "entityUID", "cstType", "convention", "term", "definition", "formal", "raw", "resolved", "forms", "text"}
JMuts == {"drop", "null", "int", "negative", "huge", "string", "empty-string", "array", "object", "bool", "dup-uid", "bad-enum", "junk-utf8", "nested-deep"}

VARIABLES mode, stage, toks
v4 == <<mode, stage, toks, fam, c>>
\* calls whose argument is a property (a power set): the value audit then looks into the callee's stored definition
\* (F3 := [a in BBB(X1)] card(a) in the harness's context) - whatever it reports must be positioned in the caller's text
PropCalls == {Call("F3", <<Node("BOOLEAN", <<X(1)>>)>>), Call("F3", <<Node("BOOLEAN", <<Node("BOOLEAN", <<X(1)>>)>>)>>),
              Node("EQUAL", <<Call("F3", <<Node("BOOLEAN", <<X(1)>>)>>), IntLit(1)>>)}
EditPool == IF EditTrees = "all" THEN OpTrees \cup LogicTrees \cup CtorTrees \cup PropCalls
            ELSE IF EditTrees = "ctor" THEN CtorTrees \cup {Bin(o, X(1), X(2)) : o \in BinOps} \cup LMix \cup PropCalls ELSE {}

Init4 == \/ mode = "seq" /\ stage = 0 /\ toks = <<>> /\ fam = "none" /\ c = X(1)
         \/ /\ mode = "json" /\ stage = 0 /\ fam = "none" /\ c = X(1)
            /\ \E item \in 0..8, f \in JFields, m \in JMuts : toks = <<ToString(item), f, m>>
         \/ mode = "edit" /\ stage = 1 /\ fam = "none" /\ c \in EditPool /\ toks = Render(c, 0).t
         \* one construct nested n times: within the parser's documented depth limit every later pass must cope with the tree,
         \* beyond it the input must be refused with an error (the harness expands <<construct, n>> into the text).
         \* Nested tuples / enumerations / power sets have typifications as deep as the text: 300 levels keep the quadratic string work
         \* of the later passes within seconds under the sanitizers
         \/ /\ mode = "deep" /\ stage = 0 /\ fam = "none" /\ c = X(1)
            /\ \E op \in {"BOOLEAN", "PAREN", "NOT", "ENUM", "SMALLPR", "TUPLE", "REF", "QUANT"} : \E n \in {IF op \in {"TUPLE", "ENUM", "BOOLEAN"} THEN 300 ELSE 1500, 2500, IF op \in {"SMALLPR", "TUPLE", "QUANT"} THEN 30000 ELSE IF op = "ENUM" THEN 60000 ELSE 150000} : toks = <<op, ToString(n)>>
Next4 ==
  \/ /\ mode = "seq" /\ Len(toks) < MaxSeq /\ \E s \in Sigma : toks' = Append(toks, s)
     /\ UNCHANGED <<mode, stage, fam, c>>
  \/ /\ mode = "edit" /\ stage = 1 /\ stage' = 2 /\ UNCHANGED <<mode, fam, c>>
     /\ \/ \E i \in 1..Len(toks) : toks' = SubSeq(toks, 1, i - 1) \o SubSeq(toks, i + 1, Len(toks))                  \* delete
        \/ \E i \in 1..Len(toks), s \in EditTokens : s # toks[i] /\ toks' = [toks EXCEPT ![i] = s]                   \* replace
        \/ \E i \in 0..Len(toks), s \in EditTokens : toks' = SubSeq(toks, 1, i) \o <<s>> \o SubSeq(toks, i + 1, Len(toks))   \* insert
        \/ \E i \in 1..Len(toks) : toks' = SubSeq(toks, 1, i) \o SubSeq(toks, i, Len(toks))                          \* duplicate
        \/ \E i \in 1..(Len(toks) - 1) : toks' = [toks EXCEPT ![i] = toks[i + 1], ![i + 1] = toks[i]]                \* transpose
Spec4 == Init4 /\ [][Next4]_v4
Emit4 == PrintT(<<"CASE", ToJson([kind |-> IF mode = "json" THEN "json" ELSE IF mode = "deep" THEN "deep" ELSE "toks", toks |-> toks])>>)

\* The postcondition of C04 for one call (the recorded event carries what the call returned / logged):
\*   ev.returned : the call came back (no fault), ev.ok : it reported success,
\*   ev.ncritical : number of critical errors logged, ev.positions : reported positions, ev.len : input length in the unit of the syntax
Post(ev) == /\ ev.returned
            /\ (ev.ok = FALSE) <=> (ev.ncritical >= 1)
            /\ \A i \in DOMAIN ev.positions : ev.positions[i] >= 0 /\ ev.positions[i] <= ev.len
=============================================================================
