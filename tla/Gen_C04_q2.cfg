CONSTANTS ConstIds = {"C1"}
MaxSeq = 3
SeqAlphabet = "core"
EditTrees = "none"
SPECIFICATION Spec4
CONSTRAINT Emit4
