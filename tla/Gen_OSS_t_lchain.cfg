CONSTANTS MaxLen = 4
MaxPict = 4
Preset = "lchain"
SPECIFICATION Spec
INVARIANT StructureInv
INVARIANT FreshInv
CONSTRAINT Emit
