----------------------------- MODULE RangesInd ------------------------------
(***************************************************************************)
(* The interval-algebra laws of Strings.tla (C20) over ALL integer ranges: *)
(* the relations are restated on four integers (start / finish of a and b) *)
(* and Apalache proves the laws for every a.s <= a.f, b.s <= b.f - not     *)
(* only inside the window [-1, 5] that MC_C20 enumerates with TLC.         *)
(*   apalache-mc check --init=Init --next=Next --inv=Laws --length=0       *)
(* The definitions below are textual copies of Strings.tla's (Before ...   *)
(* SharesBorder) with the records unfolded; Intersect / Merge are written  *)
(* with Max / Min instead of point sets.                                   *)
(***************************************************************************)
EXTENDS Integers

VARIABLES
  \* @type: Int;
  as,
  \* @type: Int;
  af,
  \* @type: Int;
  bs,
  \* @type: Int;
  bf

Init == as \in Int /\ af \in Int /\ bs \in Int /\ bf \in Int /\ as <= af /\ bs <= bf
Next == UNCHANGED <<as, af, bs, bf>>

Max2(x, y) == IF x >= y THEN x ELSE y
Min2(x, y) == IF x <= y THEN x ELSE y
B2N(p) == IF p THEN 1 ELSE 0

\* relations R(a, b) on (s1, f1, s2, f2)
Before(s1, f1, s2, f2)   == f1 < s2
After(s1, f1, s2, f2)    == s1 > f2
Meets(s1, f1, s2, f2)    == f1 = s2
Starts(s1, f1, s2, f2)   == s1 = s2 /\ f1 < f2
Finishes(s1, f1, s2, f2) == f1 = f2 /\ s1 > s2
During(s1, f1, s2, f2)   == s1 > s2 /\ f1 < f2
Equal(s1, f1, s2, f2)    == s1 = s2 /\ f1 = f2
Overlaps(s1, f1, s2, f2) == s1 = s2 \/ (s1 < s2 /\ s2 < f1) \/ (s2 < s1 /\ s1 < f2)
ContainsRng(s1, f1, s2, f2) == s1 <= s2 /\ f2 <= f1
SharesBorder(s1, f1, s2, f2) == f1 = s2 \/ f2 = s1
Proper(s, f) == s < f

Laws ==
  LET is == Max2(as, bs)  if == Min2(af, bf)          \* the intersection, when is <= if
      ms == Min2(as, bs)  mf == Max2(af, bf)          \* the hull
  IN
  /\ Before(as, af, bs, bf) <=> After(bs, bf, as, af)
  /\ SharesBorder(as, af, bs, bf) <=> SharesBorder(bs, bf, as, af)
  /\ (Proper(as, af) /\ Proper(bs, bf)) => (Overlaps(as, af, bs, bf) <=> Overlaps(bs, bf, as, af))
  \* proper ranges overlap exactly when some position lies in both half-open ranges
  /\ (Proper(as, af) /\ Proper(bs, bf)) => (Overlaps(as, af, bs, bf) <=> is < if)
  /\ (Starts(as, af, bs, bf) \/ Finishes(as, af, bs, bf) \/ During(as, af, bs, bf)) => (ContainsRng(bs, bf, as, af) /\ ~Equal(as, af, bs, bf))
  /\ (ContainsRng(as, af, bs, bf) /\ ContainsRng(bs, bf, as, af)) <=> Equal(as, af, bs, bf)
  /\ ~(Before(as, af, bs, bf) /\ After(as, af, bs, bf))
  \* strictly apart exactly when the closed point sets are disjoint
  /\ (Before(as, af, bs, bf) \/ After(as, af, bs, bf)) <=> (is > if)
  /\ (is <= if) => (ContainsRng(as, af, is, if) /\ ContainsRng(bs, bf, is, if))
  /\ ContainsRng(ms, mf, as, af) /\ ContainsRng(ms, mf, bs, bf)
  \* exactly one of the 13 Allen relations for proper ranges
  /\ (Proper(as, af) /\ Proper(bs, bf)) =>
       B2N(Before(as, af, bs, bf)) + B2N(After(as, af, bs, bf)) + B2N(Meets(as, af, bs, bf)) + B2N(Meets(bs, bf, as, af))
       + B2N(as < bs /\ bs < af /\ af < bf) + B2N(bs < as /\ as < bf /\ bf < af)
       + B2N(Starts(as, af, bs, bf)) + B2N(Starts(bs, bf, as, af)) + B2N(Finishes(as, af, bs, bf)) + B2N(Finishes(bs, bf, as, af))
       + B2N(During(as, af, bs, bf)) + B2N(During(bs, bf, as, af)) + B2N(Equal(as, af, bs, bf)) = 1
=============================================================================
