------------------------------- MODULE RSSyntax -----------------------------
(***************************************************************************)
(* Concrete syntax of RSLang at token level: Render(tree, maxp) is a token *)
(* sequence that the grammar must parse back into exactly `tree`, with the *)
(* token span of every node (preorder).  The precedence / associativity /  *)
(* stratification rules below ARE the formal content of "the RSLang        *)
(* grammar" for C06 (parser), C05 (printer) and C04 (near-valid inputs):   *)
(*  - setexpr binaries: level 1 + -, level 2 *, level 3 the five set       *)
(*    operators (one level); all left-associative;                         *)
(*  - an unparenthesised product chain is ONE n-ary node, a parenthesised  *)
(*    product operand stays nested;                                        *)
(*  - connectives <=> < => < or < & , left-associative; negation and       *)
(*    quantifiers take only the next non-binary formula;                   *)
(*  - only binary set/arithmetic nodes (anywhere) and binary connectives / *)
(*    infix predicates (as operand of a connective, of a negation, or as   *)
(*    quantifier body) may carry redundant parentheses.                    *)
(* Token spelling per syntax (MATH / ASCII) is a table of the harness.     *)
(* maxp = 1 adds every admissible redundant pair of parentheses.           *)
(***************************************************************************)
EXTENDS Integers, Sequences, TLC

SetBin3 == {"DECART", "UNION", "INTERSECTION", "SET_MINUS", "SYMMINUS"}
BinPrec(id) == CASE id \in {"PLUS", "MINUS"} -> 1 [] id = "MULTIPLY" -> 2 [] id \in SetBin3 -> 3 [] OTHER -> 0
IsSetBinary(e) == BinPrec(e.id) > 0
LogPrec(id) == CASE id = "EQUIVALENT" -> 1 [] id = "IMPLICATION" -> 2 [] id = "OR" -> 3 [] id = "AND" -> 4 [] OTHER -> 0
IsLogBinary(e) == LogPrec(e.id) > 0
InfixPreds == {"IN", "NOTIN", "SUBSET", "SUBSET_OR_EQ", "NOTSUBSET", "EQUAL", "NOTEQUAL",
               "GREATER", "LESSER", "GREATER_OR_EQ", "LESSER_OR_EQ"}
IsInfixPred(e) == e.id \in InfixPreds
MayParenLogic(e) == IsLogBinary(e) \/ IsInfixPred(e)

RECURSIVE IxStr(_, _)
IxStr(ix, i) == IF i > Len(ix) THEN "" ELSE (IF i > 1 THEN "," ELSE "") \o ToString(ix[i]) \o IxStr(ix, i + 1)

\* a rendering: tokens + spans (preorder; sp[1] is the node itself); spans are 1-based token indices
Rd(t, sp) == [t |-> t, sp |-> sp]
Shift(sp, k) == [i \in DOMAIN sp |-> [a |-> sp[i].a + k, b |-> sp[i].b + k]]
Leaf(tok) == Rd(<<tok>>, <<[a |-> 1, b |-> 1]>>)
\* parenthesise a rendering: the node's own span grows to include the parentheses
Paren(r) == Rd(<<"(">> \o r.t \o <<")">>,
               <<[a |-> 1, b |-> Len(r.t) + 2]>> \o Shift(Tail(r.sp), 1))
\* the parenthesisation mode maxp: 0 = only the necessary parentheses, 1 = every admissible redundant pair as well,
\* 2 = as 1 with every pair around a binary set expression written twice: "((a \union b)) \intersect c".
\* The grammar admits that for set expressions only (setexpr_binary : LP setexpr_binary RPE; a parenthesised formula is
\* LP logic_binary RPE | LP logic_predicates RPE and cannot be parenthesised again), and the parser extends the node's
\* range over ONE pair: the outer pair of a doubled one belongs to no node but the enclosing ones.
Extra(m) == m > 0
Paren2(r) == Rd(<<"(", "(">> \o r.t \o <<")", ")">>, <<[a |-> 2, b |-> Len(r.t) + 3]>> \o Shift(Tail(r.sp), 2))
PP(r, m) == IF m = 2 THEN Paren2(r) ELSE Paren(r)
\* glue parts (each a rendering or bare tokens) under a new node: node span covers everything
Part(r) == [t |-> r.t, sp |-> r.sp]
Bare(toks) == [t |-> toks, sp |-> <<>>]
RECURSIVE GlueFrom(_, _, _)
GlueFrom(parts, i, off) ==
  IF i > Len(parts) THEN [t |-> <<>>, sp |-> <<>>]
  ELSE LET rest == GlueFrom(parts, i + 1, off + Len(parts[i].t))
       IN [t |-> parts[i].t \o rest.t, sp |-> Shift(parts[i].sp, off) \o rest.sp]
Compose(parts) == LET g == GlueFrom(parts, 1, 0) IN Rd(g.t, <<[a |-> 1, b |-> Len(g.t)]>> \o g.sp)

RECURSIVE Render(_, _)
RECURSIVE Commas(_, _, _)
RECURSIVE RenderSet(_, _)
\* children i.. of e separated by ","
Commas(e, i, maxp) == IF i > Len(e.ch) THEN <<>>
                      ELSE (IF i > 1 THEN <<Bare(<<",">>)>> ELSE <<>>) \o <<Part(RenderSet(e.ch[i], maxp))>> \o Commas(e, i + 1, maxp)
\* a setexpr in a neutral position (argument, element, domain ...): binary nodes may carry redundant parentheses
RenderSet(e, maxp) == IF Extra(maxp) /\ IsSetBinary(e) THEN PP(Render(e, maxp), maxp) ELSE Render(e, maxp)
\* operand i of the binary setexpr node e
SetOperand(e, i, maxp) ==
  LET c == e.ch[i]  r == Render(c, maxp)  p == BinPrec(e.id)
      need == IF ~IsSetBinary(c) THEN FALSE
              ELSE IF e.id = "DECART" /\ c.id = "DECART" THEN TRUE           \* keep a product operand nested
              ELSE IF i = 1 THEN BinPrec(c.id) < p ELSE BinPrec(c.id) <= p   \* left associativity
  IN IF need \/ (Extra(maxp) /\ IsSetBinary(c)) THEN PP(r, maxp) ELSE r
\* operand of a connective / negation / quantifier body
LogOperand(c, parentPrec, isRight, maxp) ==
  LET r == Render(c, maxp)
      need == IF IsLogBinary(c) THEN (parentPrec = 5 \/ (IF isRight THEN LogPrec(c.id) <= parentPrec ELSE LogPrec(c.id) < parentPrec))
              ELSE FALSE
  IN IF need \/ (Extra(maxp) /\ MayParenLogic(c)) THEN Paren(r) ELSE r
RECURSIVE DeclR(_, _)
DeclR(d, maxp) ==      \* declaration patterns: LOCAL | TUPLEDECL(..) | ENUMDECL(..)
  IF d.id = "LOCAL" THEN Leaf("$" \o d.s)
  ELSE LET RECURSIVE Items(_)
           Items(i) == IF i > Len(d.ch) THEN <<>> ELSE (IF i > 1 THEN <<Bare(<<",">>)>> ELSE <<>>) \o <<Part(DeclR(d.ch[i], maxp))>> \o Items(i + 1)
       IN IF d.id = "TUPLEDECL" THEN Compose(<<Bare(<<"(">>)>> \o Items(1) \o <<Bare(<<")">>)>>) ELSE Compose(Items(1))

Render(e, maxp) ==
  LET N == Len(e.ch)
      S(i) == Part(RenderSet(e.ch[i], maxp))
      L(i) == Part(Render(e.ch[i], maxp))          \* a logic child in a position that admits no parentheses
  IN
  CASE e.id \in {"GLOBAL", "LOCAL", "RADICAL"} -> Leaf("$" \o e.s)
    [] e.id = "INT" -> Leaf("#" \o ToString(e.n))
    [] e.id = "EMPTY" -> Leaf("EMPTY")
    [] e.id = "INTSET" -> Leaf("INTSET")
    [] e.id = "DECART" ->
         LET RECURSIVE Fs(_)
             Fs(i) == IF i > N THEN <<>> ELSE (IF i > 1 THEN <<Bare(<<"DECART">>)>> ELSE <<>>) \o <<Part(SetOperand(e, i, maxp))>> \o Fs(i + 1)
         IN Compose(Fs(1))
    [] IsSetBinary(e) -> Compose(<<Part(SetOperand(e, 1, maxp)), Bare(<<e.id>>), Part(SetOperand(e, 2, maxp))>>)
    [] IsInfixPred(e) -> Compose(<<S(1), Bare(<<e.id>>), S(2)>>)
    [] IsLogBinary(e) -> Compose(<<Part(LogOperand(e.ch[1], LogPrec(e.id), FALSE, maxp)), Bare(<<e.id>>),
                              Part(LogOperand(e.ch[2], LogPrec(e.id), TRUE, maxp))>>)
    [] e.id = "NOT" -> Compose(<<Bare(<<"NOT">>), Part(LogOperand(e.ch[1], 5, FALSE, maxp))>>)
    [] e.id \in {"FORALL", "EXISTS"} ->
         Compose(<<Bare(<<e.id>>), Part(DeclR(e.ch[1], maxp)), Bare(<<"IN">>), S(2), Part(LogOperand(e.ch[3], 5, FALSE, maxp))>>)
    [] e.id = "DECLARATIVE" ->
         \* the short spelling {x in S | P} exists for a plain variable; it is used in the maxp rendering
         Compose(<<Bare(IF Extra(maxp) /\ e.ch[1].id = "LOCAL" THEN <<"{">> ELSE <<"DECLARATIVE", "{">>), Part(DeclR(e.ch[1], maxp)), Bare(<<"IN">>), S(2),
                Bare(<<"|">>), L(3), Bare(<<"}">>)>>)
    [] e.id = "REC_SHORT" -> Compose(<<Bare(<<"RECURSIVE", "{">>), Part(DeclR(e.ch[1], maxp)), Bare(<<"ASSIGN">>), S(2), Bare(<<"|">>), S(3), Bare(<<"}">>)>>)
    [] e.id = "REC_FULL" -> Compose(<<Bare(<<"RECURSIVE", "{">>), Part(DeclR(e.ch[1], maxp)), Bare(<<"ASSIGN">>), S(2), Bare(<<"|">>), L(3),
                                  Bare(<<"|">>), S(4), Bare(<<"}">>)>>)
    [] e.id = "ITERATE" -> Compose(<<Part(DeclR(e.ch[1], maxp)), Bare(<<"ITERATE">>), S(2)>>)
    [] e.id = "ASSIGN" -> Compose(<<Part(DeclR(e.ch[1], maxp)), Bare(<<"ASSIGN">>), S(2)>>)
    [] e.id = "IMPERATIVE" ->
         LET RECURSIVE Bl(_)
             Bl(i) == IF i > N THEN <<>> ELSE (IF i > 2 THEN <<Bare(<<";">>)>> ELSE <<>>) \o <<L(i)>> \o Bl(i + 1)
         IN Compose(<<Bare(<<"IMPERATIVE", "{">>), S(1), Bare(<<"|">>)>> \o Bl(2) \o <<Bare(<<"}">>)>>)
    [] e.id \in {"CARD", "DEBOOL", "BOOL", "REDUCE"} -> Compose(<<Bare(<<e.id, "(">>), S(1), Bare(<<")">>)>>)
    [] e.id \in {"BIGPR", "SMALLPR"} -> Compose(<<Bare(<<e.id \o "@" \o IxStr(e.ix, 1), "(">>), S(1), Bare(<<")">>)>>)
    [] e.id = "BOOLEAN" -> IF e.ch[1].id = "BOOLEAN" THEN Compose(<<Bare(<<"BOOLEAN">>), Part(Render(e.ch[1], maxp))>>)
                           ELSE Compose(<<Bare(<<"BOOLEAN", "(">>), S(1), Bare(<<")">>)>>)
    [] e.id = "TUPLE" -> Compose(<<Bare(<<"(">>)>> \o Commas(e, 1, maxp) \o <<Bare(<<")">>)>>)
    [] e.id = "ENUM" -> Compose(<<Bare(<<"{">>)>> \o Commas(e, 1, maxp) \o <<Bare(<<"}">>)>>)
    [] e.id = "CALL" -> Compose(<<Bare(<<"$" \o e.s, "[">>)>> \o Commas(e, 1, maxp) \o <<Bare(<<"]">>)>>)
    [] e.id = "FILTER" ->
         LET RECURSIVE Ps(_)
             Ps(i) == IF i >= N THEN <<>> ELSE (IF i > 1 THEN <<Bare(<<",">>)>> ELSE <<>>) \o <<S(i)>> \o Ps(i + 1)
         IN Compose(<<Bare(<<"FILTER@" \o IxStr(e.ix, 1), "[">>)>> \o Ps(1) \o <<Bare(<<"]", "(">>), S(N), Bare(<<")">>)>>)
    [] e.id = "FUNCDEF" ->      \* [a in S, b in T] body ; ch = <<ARGS, body>>, ARGS.ch = <<ARG(name, domain), ...>>
         LET args == e.ch[1]
             RECURSIVE As(_)
             As(i) == IF i > Len(args.ch) THEN <<>>
                      ELSE (IF i > 1 THEN <<Bare(<<",">>)>> ELSE <<>>)
                           \o <<Part(Compose(<<Part(Leaf("$" \o args.ch[i].ch[1].s)), Bare(<<"IN">>), Part(RenderSet(args.ch[i].ch[2], maxp))>>))>> \o As(i + 1)
         IN Compose(<<Bare(<<"[">>), Part(Compose(As(1))), Bare(<<"]">>), Part(Render(e.ch[2], maxp))>>)
    [] e.id = "BAD" -> Compose(<<Part(Leaf("$" \o e.ch[1].s)), Bare(<<"UNION">>)>>)     \* a definition that does not parse (mentions one name)
    [] OTHER -> Leaf("??" \o e.id)
=============================================================================
