CONSTANTS MaxAtoms = 4
MaxOps = 0
AtomSet = {1, 2, 3, 4, 5, 9, 12, 17, 19, 22, 26, 27, 38}
WithMgr = FALSE
SPECIFICATION Spec
CONSTRAINT Emit
