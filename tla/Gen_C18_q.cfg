CONSTANTS MaxLen = 3
SPECIFICATION Spec
CONSTRAINT Emit
