SPECIFICATION TSpec
INVARIANT PropC20
POSTCONDITION TraceAccepted
CHECK_DEADLOCK FALSE
