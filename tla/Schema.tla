------------------------------- MODULE Schema --------------------------------
(***************************************************************************)
(* The conceptual schema (ccl::semantic::RSForm / RSCore) as a state       *)
(* machine over its CONTENT: what a user can observe through the public    *)
(* API.  One action per public mutator, each with its refusal conditions.  *)
(*   order : sequence of identifiers (the display list)                    *)
(*   cst   : identifier -> [alias, kind, def, conv, term, text]            *)
(*   trk   : identifier -> [allowEdit]   (tracked = inherited constituents)*)
(* def is an abstract syntax tree (RSTyping records) or NoDef (empty       *)
(* definition); conv is a sequence of words; term / text are sequences of  *)
(* atoms [r, s]: a plain word (r = FALSE) or a reference to the alias s.   *)
(* Analysis(..) is the FROM-SCRATCH analysis of a content: the oracle of   *)
(* C07 / C08 / C10; the invariants at the end are C09.                     *)
(***************************************************************************)
EXTENDS RSTyping, RSSyntax, SequencesExt, FiniteSets

VARIABLES order, cst, trk
svars == <<order, cst, trk>>

Kinds == {"base", "constant", "structured", "axiom", "term", "function", "theorem", "predicate"}
Letter(k) == CASE k = "base" -> "X" [] k = "constant" -> "C" [] k = "structured" -> "S" [] k = "axiom" -> "A"
               [] k = "term" -> "D" [] k = "function" -> "F" [] k = "theorem" -> "T" [] k = "predicate" -> "P"
Mk(k, n) == Letter(k) \o ToString(n)
MaxIndex == 24
\* kind a name denotes (a letter of XCSADTFP followed by digits), "none" for ill-formed names
OddNames == {"Q7", "x1", "X", "D01", "X1a", ""}
KindOfName(a) == IF \E k \in Kinds, n \in 1..MaxIndex : a = Mk(k, n)
                 THEN CHOOSE k \in Kinds : \E n \in 1..MaxIndex : a = Mk(k, n)
                 ELSE IF a = "D01" THEN "term" ELSE "none"
\* list grouping: the enum values the implementation compares, and the move priorities
Rank(k) == CASE k = "base" -> 1 [] k = "constant" -> 2 [] k = "structured" -> 4 [] k = "axiom" -> 5 [] k = "term" -> 6
             [] k = "function" -> 7 [] k = "theorem" -> 8 [] k = "predicate" -> 9
Prio(k) == CASE k = "base" -> 4 [] k = "constant" -> 3 [] k = "structured" -> 2 [] OTHER -> 1
IsBasicKind(k) == k \in {"base", "constant", "structured"}

MaxOfSet(S) == CHOOSE x \in S : \A y \in S : x >= y
NoDef == [id |-> "NODEF", s |-> "", n |-> 0, ix |-> <<>>, ch |-> <<>>]
Ids == DOMAIN cst
Aliases == {cst[u].alias : u \in Ids}
Find(a) == {u \in Ids : cst[u].alias = a}          \* at most one when UniqueAlias holds

\* smallest free index of the kind's letter
NewName(k, taken) == Mk(k, CHOOSE n \in 1..MaxIndex : Mk(k, n) \notin taken /\ \A m \in 1..(n - 1) : Mk(k, m) \in taken)
NeedNameChange(a, k, taken) == a \in taken \/ KindOfName(a) # k

-----------------------------------------------------------------------------
(* renaming: whole-identifier occurrences in definitions, conventions and references *)
RenWords(q, map) == [i \in DOMAIN q |-> IF q[i] \in DOMAIN map THEN map[q[i]] ELSE q[i]]
RenAtoms(q, map) == [i \in DOMAIN q |-> IF q[i].r /\ q[i].s \in DOMAIN map THEN [q[i] EXCEPT !.s = map[q[i].s]] ELSE q[i]]
RenDef(d, map) == IF d = NoDef THEN d ELSE RenameTree(d, map)
RenRec(c, map) == [c EXCEPT !.def = RenDef(c.def, map), !.conv = RenWords(c.conv, map),
                            !.term = RenAtoms(c.term, map), !.text = RenAtoms(c.text, map)]
One(a, b) == a :> b

\* where a constituent of kind k enters the list
InsPos(ord, c, k) ==
  IF ~IsBasicKind(k) \/ ord = <<>> THEN Len(ord) + 1
  ELSE LET le == {i \in DOMAIN ord : Rank(c[ord[i]].kind) <= Rank(k)} IN
       IF le # {} THEN MaxOfSet(le) + 1
       ELSE IF Rank(c[ord[1]].kind) > Rank(k) THEN 1 ELSE Len(ord) + 1
InsertAtPos(ord, p, u) == SubSeq(ord, 1, p - 1) \o <<u>> \o SubSeq(ord, p, Len(ord))

-----------------------------------------------------------------------------
(* Actions.  uid arguments named `fresh` are the identifier the generator draws (hook). *)
SInit == order = <<>> /\ cst = <<>> /\ trk = <<>>

NewRec(a, k, d) == [alias |-> a, kind |-> k, def |-> d, conv |-> <<>>, term |-> <<>>, text |-> <<>>]
AddCst(u, rec) == /\ cst' = (u :> rec) @@ cst
                  /\ order' = InsertAtPos(order, InsPos(order, cst, rec.kind), u)

Emplace(k, d, fresh) ==
  /\ fresh \notin Ids
  /\ AddCst(fresh, NewRec(NewName(k, Aliases), k, d))
  /\ UNCHANGED trk

\* a record carries its own uid and alias; both are re-issued when taken (alias also when ill-formed / of another kind),
\* and the record's own mentions of its old alias follow the new one
InsertCopy(rec, fresh) ==
  LET u == IF rec.uid \in Ids THEN fresh ELSE rec.uid
      a == IF NeedNameChange(rec.alias, rec.kind, Aliases) THEN NewName(rec.kind, Aliases) ELSE rec.alias
      body == [alias |-> a, kind |-> rec.kind, def |-> rec.def, conv |-> rec.conv, term |-> rec.term, text |-> rec.text]
  IN /\ fresh \notin Ids /\ fresh # rec.uid
     /\ AddCst(u, IF a # rec.alias THEN RenRec(body, One(rec.alias, a)) ELSE body)
     /\ UNCHANGED trk

\* ---- bulk insertion (RSForm::InsertCopy of a list, Ops().MergeWith): identifiers and aliases are issued one after the other,
\* then every inserted copy is renamed by the complete alias map in one simultaneous substitution
AliasesOf(c) == {c[u].alias : u \in DOMAIN c}
RECURSIVE MergeIns(_, _, _, _, _, _)
MergeIns(i, S2, ord, c, fresh, acc) ==
  IF i > Len(S2.ord) THEN [ord |-> ord, c |-> c, tr |-> acc.tr, names |-> acc.names]
  ELSE LET u == S2.ord[i]  r == S2.c[u]
           taken == AliasesOf(c)
           clash == u \in DOMAIN c
           nu == IF clash THEN Head(fresh) ELSE u
           na == IF NeedNameChange(r.alias, r.kind, taken) THEN NewName(r.kind, taken) ELSE r.alias
       IN MergeIns(i + 1, S2, InsertAtPos(ord, InsPos(ord, c, r.kind), nu), (nu :> [r EXCEPT !.alias = na]) @@ c,
                   IF clash THEN Tail(fresh) ELSE fresh, [tr |-> (u :> nu) @@ acc.tr, names |-> (r.alias :> na) @@ acc.names])
MergeSchemas(S1, S2, fresh) ==
  LET r == MergeIns(1, S2, S1.ord, S1.c, fresh, [tr |-> <<>>, names |-> <<>>])
      map == [a \in {x \in DOMAIN r.names : r.names[x] # x} |-> r.names[a]]
      inserted == {r.tr[u] : u \in DOMAIN S2.c}
  IN [ord |-> r.ord, c |-> [u \in DOMAIN r.c |-> IF u \in inserted THEN RenRec(r.c[u], map) ELSE r.c[u]], tr |-> r.tr]

\* records: a sequence with distinct own identifiers; fresh: the identifiers the generator hands out on collisions, in order
InsertBulk(recs, fresh) ==
  LET S2 == [ord |-> [i \in DOMAIN recs |-> recs[i].uid],
             c |-> [u \in {recs[i].uid : i \in DOMAIN recs} |->
                      LET r == recs[CHOOSE i \in DOMAIN recs : recs[i].uid = u]
                      IN [alias |-> r.alias, kind |-> r.kind, def |-> r.def, conv |-> r.conv, term |-> r.term, text |-> r.text]]]
      m == MergeSchemas([ord |-> order, c |-> cst], S2, fresh)
  IN order' = m.ord /\ cst' = m.c /\ UNCHANGED trk

Erase(u) ==
  IF u \in Ids /\ u \notin DOMAIN trk
  THEN /\ cst' = [x \in Ids \ {u} |-> cst[x]]
       /\ order' = SelectSeq(order, LAMBDA x : x # u)
       /\ UNCHANGED trk
  ELSE UNCHANGED svars                                    \* refused: unknown or tracked

SetAliasOK(u, a) == u \in Ids /\ cst[u].alias # a /\ ~NeedNameChange(a, cst[u].kind, Aliases)
SetAlias(u, a, subst) ==
  IF SetAliasOK(u, a)
  THEN LET old == cst[u].alias
           renamed == [cst EXCEPT ![u].alias = a]
       IN /\ cst' = IF subst THEN [x \in Ids |-> RenRec(renamed[x], One(old, a))] ELSE renamed
          /\ UNCHANGED <<order, trk>>
  ELSE UNCHANGED svars

SetExpression(u, d) ==
  IF u \in Ids /\ u \notin DOMAIN trk /\ cst[u].def # d
  THEN cst' = [cst EXCEPT ![u].def = d] /\ UNCHANGED <<order, trk>>
  ELSE UNCHANGED svars
EditAllowed(u) == u \in Ids /\ (u \in DOMAIN trk => trk[u].allowEdit)
SetConvention(u, q) == IF EditAllowed(u) /\ cst[u].conv # q THEN cst' = [cst EXCEPT ![u].conv = q] /\ UNCHANGED <<order, trk>> ELSE UNCHANGED svars
\* manual word forms of a term: an optional field "forms" (word form -> text).  A new raw term discards them; renaming keeps them.
FormsOf(c) == IF "forms" \in DOMAIN c THEN c.forms ELSE <<>>
WithForms(c, fm) == [f \in (DOMAIN c) \cup {"forms"} |-> IF f = "forms" THEN fm ELSE c[f]]
WithoutForms(c) == [f \in (DOMAIN c) \ {"forms"} |-> c[f]]
SetTerm(u, q)       == IF EditAllowed(u) /\ cst[u].term # q THEN cst' = [cst EXCEPT ![u] = WithoutForms([@ EXCEPT !.term = q])] /\ UNCHANGED <<order, trk>> ELSE UNCHANGED svars
SetTermForm(u, form, txt) ==
  IF EditAllowed(u) /\ ~(form \in DOMAIN FormsOf(cst[u]) /\ FormsOf(cst[u])[form] = txt)
  THEN cst' = [cst EXCEPT ![u] = WithForms(@, (form :> txt) @@ FormsOf(@))] /\ UNCHANGED <<order, trk>>
  ELSE UNCHANGED svars
SetText(u, q)       == IF EditAllowed(u) /\ cst[u].text # q THEN cst' = [cst EXCEPT ![u].text = q] /\ UNCHANGED <<order, trk>> ELSE UNCHANGED svars

\* MoveBefore(what, position): position p in 1..Len+1 (Len+1 = end).  The decision rule is the implementation's.
CanMoveBefore(ord, c, iw, p) ==
  LET K(i) == c[ord[i]].kind
      Hpo(s, w) == Prio(s) > Prio(w) IN
  IF iw = p THEN TRUE
  ELSE IF p = Len(ord) + 1
       THEN (IF Len(ord) = iw THEN TRUE
             ELSE IF iw = 1 THEN ~Hpo(K(iw), K(Len(ord)))
             ELSE ~Hpo(K(iw), K(Len(ord))) /\ ~Hpo(K(Len(ord)), K(iw - 1)))
  ELSE IF p = 1 THEN ~Hpo(K(1), K(iw))
  ELSE ~Hpo(K(p), K(iw)) /\ ~Hpo(K(iw), K(p - 1))
MoveBefore(u, p) ==
  IF u \in Ids /\ p \in 1..(Len(order) + 1)
  THEN LET iw == CHOOSE i \in DOMAIN order : order[i] = u IN
       IF CanMoveBefore(order, cst, iw, p)
       THEN LET rest == SelectSeq(order, LAMBDA x : x # u)
                q == IF p > iw THEN p - 1 ELSE p
            IN order' = InsertAtPos(rest, q, u) /\ UNCHANGED <<cst, trk>>
       ELSE UNCHANGED svars
  ELSE UNCHANGED svars

\* renumber per kind in list order, all mentions follow simultaneously
\* functional form (also used by the extraction operations of SchemaOps): the content after renumbering, and the alias map
ResetNames(ord, c) ==
  LET RECURSIVE Assign(_, _)
      Assign(i, acc) == IF i > Len(ord) THEN acc
                        ELSE Assign(i + 1, acc @@ (ord[i] :> NewName(c[ord[i]].kind, {acc[x] : x \in DOMAIN acc})))
  IN Assign(1, <<>>)
ResetMap(ord, c) ==
  LET newAlias == ResetNames(ord, c) IN
  [a \in {c[u].alias : u \in {x \in DOMAIN c : newAlias[x] # c[x].alias}} |-> newAlias[CHOOSE u \in DOMAIN c : c[u].alias = a]]
ResetF(ord, c) ==
  LET newAlias == ResetNames(ord, c)  map == ResetMap(ord, c)
  IN [u \in DOMAIN c |-> [RenRec(c[u], map) EXCEPT !.alias = newAlias[u]]]
ResetAliases == cst' = ResetF(order, cst) /\ UNCHANGED <<order, trk>>

\* DeleteDuplicates: a constituent with some content absorbs every other constituent of the same kind with identical
\* definition, convention, term and text; the copy is erased (also when tracked: merge operations bypass the tracking
\* guard) and every mention of its alias is rewritten to the survivor's.  Scan order as in the implementation.
IsEmptyRec(c) == c.def = NoDef /\ c.conv = <<>> /\ c.term = <<>> /\ c.text = <<>>
SameContent(a, b) == a.kind = b.kind /\ a.def = b.def /\ a.conv = b.conv /\ a.term = b.term /\ a.text = b.text
\* tr: the pairs <<erased, absorbing>> in the order of erasure (the translation the operation returns)
RECURSIVE DedupPass(_, _, _, _, _, _)
DedupPass(i, ord, c, t, changed, tr) ==
  IF i > Len(ord) THEN [ord |-> ord, c |-> c, t |-> t, changed |-> changed, tr |-> tr]
  ELSE LET o == ord[i]
           cands == {j \in DOMAIN ord : j # i /\ SameContent(c[o], c[ord[j]])} IN
       IF IsEmptyRec(c[o]) \/ cands = {} THEN DedupPass(i + 1, ord, c, t, changed, tr)
       ELSE LET j == CHOOSE x \in cands : \A y \in cands : x <= y
                dup == ord[j]
                map == One(c[dup].alias, c[o].alias)
                ord2 == SelectSeq(ord, LAMBDA x : x # dup)
                c2 == [x \in DOMAIN c \ {dup} |-> RenRec(c[x], map)]
                t2 == [x \in DOMAIN t \ {dup} |-> t[x]]
            IN DedupPass((IF j < i THEN i - 1 ELSE i) + 1, ord2, c2, t2, TRUE, Append(tr, <<dup, o>>))
RECURSIVE DedupFrom(_, _, _, _)
DedupFrom(ord, c, t, tr) == LET r == DedupPass(1, ord, c, t, FALSE, tr) IN IF r.changed THEN DedupFrom(r.ord, r.c, r.t, r.tr) ELSE r
Dedup(ord, c, t) == DedupFrom(ord, c, t, <<>>)
DeleteDuplicates == LET r == Dedup(order, cst, trk) IN order' = r.ord /\ cst' = r.c /\ trk' = r.t

Track(u, allow) == IF u \in Ids THEN trk' = (u :> [allowEdit |-> allow]) @@ trk /\ UNCHANGED <<order, cst>> ELSE UNCHANGED svars
StopTracking(u) == trk' = [x \in DOMAIN trk \ {u} |-> trk[x]] /\ UNCHANGED <<order, cst>>
SaveLoad == UNCHANGED svars              \* serialising to JSON and loading back is a stuttering step on the content (C10)

-----------------------------------------------------------------------------
(* From-scratch analysis of a content (the oracle of C07): least fixpoint over the dependency order.            *)
(* A constituent is VERIFIED iff every global it mentions resolves to a VERIFIED constituent and its definition *)
(* type-checks there and fits its kind; members of dependency cycles and their dependants are INCORRECT.        *)
DefMentions(c) == IF c.def = NoDef THEN {} ELSE Mentions(c.def)
Deps(c, u) == {d \in DOMAIN c : c[d].alias \in DefMentions(c[u])}

IsFuncKind(k) == k \in {"function", "predicate"}
IsLogicKind(k) == k \in {"axiom", "theorem", "predicate"}
RECURSIVE StructDomain(_)
StructDomain(e) == e.id \in {"INTSET", "GLOBAL", "BOOLEAN", "DECART", "ENUM"} /\ \A i \in 1..Len(e.ch) : StructDomain(e.ch[i])
Unknown == [ok |-> FALSE, type |-> Bad("unchecked"), args |-> <<>>, vc |-> "invalid"]
\* ctx : alias -> [ok, type, args, vc, def] of the constituents analysed so far (def: the definition, for the value audit of calls)
FuncBodyOf(d) == [args |-> [i \in 1..Len(d.ch[1].ch) |-> d.ch[1].ch[i].ch[1].s], body |-> d.ch[2]]
\* whole : the same for every analysed constituent (the value audit of a call with property arguments looks into the callee's body,
\*         which may mention constituents the caller does not)
CheckCstW(rec, ctx, whole) ==
  LET G == [a \in {x \in DOMAIN ctx : ctx[x].ok} |-> ctx[a].type]
      F == [a \in {x \in DOMAIN ctx : ctx[x].ok /\ ctx[x].args # <<>>} |-> [args |-> ctx[a].args]]
      GC == [a \in {x \in DOMAIN whole : whole[x].ok} |-> whole[a].vc]
      FB == [a \in {x \in DOMAIN whole : whole[x].ok /\ whole[x].def # NoDef /\ whole[x].def.id = "FUNCDEF"} |-> FuncBodyOf(whole[a].def)]
      VC(d) == VClass(d, GC, FB, {})
  IN
  IF rec.kind \in {"base", "constant"} THEN
       IF rec.def = NoDef THEN [ok |-> TRUE, type |-> TBool(TBase(rec.alias)), args |-> <<>>, vc |-> "value"] ELSE Unknown
  ELSE IF rec.def = NoDef THEN Unknown
  ELSE IF rec.kind = "structured" THEN
       LET t == TypeOf(rec.def, G, F, [x \in {} |-> TAny], TRUE) IN
       IF ~StructDomain(rec.def) \/ IsBad(t) \/ t.k # "bool" THEN Unknown
       ELSE [ok |-> TRUE, type |-> t.c[1], args |-> <<>>, vc |-> IF VC(rec.def) # "invalid" THEN "value" ELSE "invalid"]
  ELSE LET t == TypeOf(rec.def, G, F, [x \in {} |-> TAny], FALSE)
           isFn == rec.def.id = "FUNCDEF" IN
       IF IsBad(t) \/ (IsFuncKind(rec.kind) # isFn) \/ (IsLogicKind(rec.kind) # (t.k = "logic")) THEN Unknown
       ELSE [ok |-> TRUE, type |-> t, args |-> ArgsOf(rec.def, G, F), vc |-> VC(rec.def)]

CheckCst(rec, ctx) == CheckCstW(rec, ctx, ctx)
RECURSIVE AnalyseRounds(_, _, _)
AnalyseRounds(c, ctx, k) ==
  IF k = 0 THEN ctx
  ELSE LET next == [a \in {c[u].alias : u \in DOMAIN c} |->
                      LET u == CHOOSE x \in DOMAIN c : c[x].alias = a
                          visible == [b \in {x \in DOMAIN ctx : ctx[x].ok /\ x \in DefMentions(c[u]) /\ x # a} |->
                                        [ok |-> ctx[b].ok, type |-> ctx[b].type, args |-> ctx[b].args, vc |-> ctx[b].vc,
                                         def |-> c[CHOOSE y \in DOMAIN c : c[y].alias = b].def]]
                          whole == [b \in {x \in DOMAIN ctx : ctx[x].ok /\ x # a} |->
                                      [ok |-> TRUE, vc |-> ctx[b].vc, def |-> c[CHOOSE y \in DOMAIN c : c[y].alias = b].def]]
                      IN CheckCstW(c[u], visible, whole)]
       IN IF next = ctx THEN ctx ELSE AnalyseRounds(c, next, k - 1)
Analysis(c) == AnalyseRounds(c, [a \in {c[u].alias : u \in DOMAIN c} |-> Unknown], Cardinality(DOMAIN c) + 1)

-----------------------------------------------------------------------------
(* C09: identity and ordering invariants *)
UniqueAlias == \A u, v \in Ids : u # v => cst[u].alias # cst[v].alias
AliasLetterMatchesKind == \A u \in Ids : KindOfName(cst[u].alias) = cst[u].kind
ListIsPermutation == /\ Len(order) = Cardinality(Ids) /\ {order[i] : i \in DOMAIN order} = Ids
ListGrouped == \A i, j \in DOMAIN order : i < j => Prio(cst[order[i]].kind) >= Prio(cst[order[j]].kind)
TrackedExist == DOMAIN trk \subseteq Ids
SchemaInv == UniqueAlias /\ AliasLetterMatchesKind /\ ListIsPermutation /\ ListGrouped /\ TrackedExist
=============================================================================
