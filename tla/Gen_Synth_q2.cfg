CONSTANTS ConstIds = {"C1", "C2", "C3"}
MaxA = 2
MaxB = 3
MaxPairs = 1
Modes = {"synth"}
SPECIFICATION Spec
INVARIANT ContractHolds
CONSTRAINT Emit
