------------------------------- MODULE MC_C20 -------------------------------
(* Model-internal check of the interval-algebra laws over all range pairs in a window,  *)
(* and of the string-utility laws over all short strings.                                *)
EXTENDS Strings, TLC
CONSTANTS Hi, Alphabet, MaxLen
Lo == -1
VARIABLES a, b, str
Ranges == {Rng(s, f) : s \in Lo..Hi, f \in Lo..Hi} \cap {r \in [s : Lo..Hi, f : Lo..Hi] : r.s <= r.f}
Init == a \in Ranges /\ b \in Ranges /\ str = <<>>
Next == /\ a = Rng(0, 0) /\ b = Rng(0, 0)
        /\ Len(str) < MaxLen /\ \E c \in Alphabet : str' = Append(str, c)
        /\ UNCHANGED <<a, b>>
Spec == Init /\ [][Next]_<<a, b, str>>
LawsHold == RangeLaws(a, b)
Join(fields, d) == FoldLeft(LAMBDA acc, x : acc \o <<d>> \o x, Head(fields), Tail(fields))
StringLaws ==
  /\ Join(SplitBy(str, 44), 44) = str                                     \* split is inverted by join
  /\ Len(SplitBy(str, 44)) = Cardinality({i \in DOMAIN str : str[i] = 44}) + 1
  /\ \A i \in DOMAIN SplitBy(str, 44) : \A j \in DOMAIN SplitBy(str, 44)[i] : SplitBy(str, 44)[i][j] # 44
  /\ LET t == Trim(str) IN /\ (t # <<>> => ~IsSpace(Head(t)) /\ ~IsSpace(t[Len(t)]))
                           /\ \E p \in 0..Len(str) : SubSeq(str, p + 1, p + Len(t)) = t
                           /\ Cardinality({i \in DOMAIN str : ~IsSpace(str[i])}) = Cardinality({i \in DOMAIN t : ~IsSpace(t[i])})
  /\ \A x \in 0..Len(str), y \in 0..Len(str) : x <= y => Substr(str, 0, x) \o Substr(str, x, y) \o Substr(str, y, Len(str)) = str
  /\ ByteLen(str) = IF str = <<>> THEN 0 ELSE Offset(str, Len(str) - 1) + BLen(str[Len(str)])
=============================================================================
