----------------------------- MODULE CGraphInd ------------------------------
(***************************************************************************)
(* The state machine of CGraph.tla (same actions, integers as identifiers) *)
(* with type annotations, for Apalache: "edges only between live nodes"    *)
(* is an INDUCTIVE invariant, i.e. it holds for histories of any length    *)
(* and any number of identifiers, not only within TLC's bounds.            *)
(*   apalache-mc check --init=GInit --inv=EdgesLive --length=0 ...         *)
(*   apalache-mc check --init=IndInit --inv=EdgesLive --length=1 ...       *)
(***************************************************************************)
EXTENDS Integers, FiniteSets

VARIABLES
  \* @type: Set(Int);
  nodes,
  \* @type: Set(<<Int, Int>>);
  edges,
  \* @type: Bool;
  invalid

\* identifiers of the step: any integers of a window (the invariant does not depend on it)
Ids == 0..7

EdgesLive == \A e \in edges : e[1] \in nodes /\ e[2] \in nodes

GInit == nodes = {} /\ edges = {} /\ invalid = FALSE
\* any state satisfying the invariant (over the window)
IndInit == /\ nodes \in SUBSET Ids
           /\ edges \in SUBSET (Ids \X Ids)
           /\ invalid \in BOOLEAN
           /\ EdgesLive

AddItem(i) == nodes' = nodes \cup {i} /\ UNCHANGED <<edges, invalid>>
EraseItem(i) == /\ nodes' = nodes \ {i}
                /\ edges' = {e \in edges : e[1] # i /\ e[2] # i}
                /\ UNCHANGED invalid
AddConnection(i, j) == /\ nodes' = nodes \cup {i, j}
                       /\ edges' = edges \cup {<<i, j>>}
                       /\ UNCHANGED invalid
SetItemInputs(i, S) == /\ nodes' = nodes \cup {i} \cup S
                       /\ edges' = {e \in edges : e[2] # i} \cup {<<s, i>> : s \in S}
                       /\ UNCHANGED invalid
Clear == nodes' = {} /\ edges' = {} /\ UNCHANGED invalid
Invalidate == invalid' = TRUE /\ UNCHANGED <<nodes, edges>>
SetValid   == invalid' = FALSE /\ UNCHANGED <<nodes, edges>>
UpdateFor(i, S) == IF invalid THEN UNCHANGED <<nodes, edges, invalid>> ELSE SetItemInputs(i, S)

GNext == \/ \E i \in Ids : AddItem(i) \/ EraseItem(i)
         \/ \E i, j \in Ids : AddConnection(i, j)
         \/ \E i \in Ids, S \in SUBSET Ids : SetItemInputs(i, S) \/ UpdateFor(i, S)
         \/ Clear \/ Invalidate \/ SetValid
=============================================================================
