CONSTANTS ConstIds = {"C1"}
SPECIFICATION Spec
CONSTRAINT Emit
