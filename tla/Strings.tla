------------------------------- MODULE Strings ------------------------------
(***************************************************************************)
(* ccl/Strings.hpp: UTF-8 strings as sequences of code points, the text    *)
(* utilities built on them, and the interval algebra StrRange.  C20.       *)
(* A string is a sequence of code points (integers); its UTF-8 image is    *)
(* produced by the harness.  A range is a record [s, f] with s <= f,       *)
(* denoting the closed interval of cursor positions s..f.                  *)
(***************************************************************************)
EXTENDS Integers, Sequences, FiniteSets, SequencesExt

\* ------------------------------------------------------------ UTF-8 layer
BLen(cp) == IF cp < 128 THEN 1 ELSE IF cp < 2048 THEN 2 ELSE IF cp < 65536 THEN 3 ELSE 4

RECURSIVE ByteLen(_)
ByteLen(s) == IF s = <<>> THEN 0 ELSE BLen(Head(s)) + ByteLen(Tail(s))

\* iteration visits code point i (0-based) at byte offset Offset(s, i), with symbol size BLen
Offset(s, i) == ByteLen(SubSeq(s, 1, i))
Iteration(s) == [i \in 1..Len(s) |-> [pos |-> i - 1, byte |-> Offset(s, i - 1), size |-> BLen(s[i])]]

SizeInCodePoints(s) == Len(s)

\* Substr by code-point range: the code points a..b-1 when the range lies inside the string, else empty
Substr(s, a, b) == IF 0 <= a /\ a < b /\ b <= Len(s) THEN SubSeq(s, a + 1, b) ELSE <<>>

\* ------------------------------------------------------------ text utilities (byte-level, ASCII delimiters)
IsSpace(cp) == cp \in {32, 9, 10, 11, 12, 13}
IsDigit(cp) == cp >= 48 /\ cp <= 57

RECURSIVE SplitBy(_, _)
\* fields between delimiters; n delimiters give n+1 fields, empty fields kept
SplitBy(s, d) ==
  IF \A i \in DOMAIN s : s[i] # d THEN <<s>>
  ELSE LET k == CHOOSE i \in DOMAIN s : s[i] = d /\ \A j \in 1..(i - 1) : s[j] # d
       IN <<SubSeq(s, 1, k - 1)>> \o SplitBy(SubSeq(s, k + 1, Len(s)), d)

RECURSIVE TrimLeft(_)
TrimLeft(s) == IF s # <<>> /\ IsSpace(Head(s)) THEN TrimLeft(Tail(s)) ELSE s
Trim(s) == Reverse(TrimLeft(Reverse(TrimLeft(s))))

IsInteger(s) ==
  LET body == IF s # <<>> /\ Head(s) = 45 THEN Tail(s) ELSE s
  IN body # <<>> /\ \A i \in DOMAIN body : IsDigit(body[i])

\* ------------------------------------------------------------ interval algebra
Rng(s, f) == [s |-> s, f |-> f]
Proper(a) == a.s < a.f
Points(a) == a.s..a.f

Before(a, b)   == a.f < b.s
After(a, b)    == a.s > b.f
Meets(a, b)    == a.f = b.s
Starts(a, b)   == a.s = b.s /\ a.f < b.f
Finishes(a, b) == a.f = b.f /\ a.s > b.s
During(a, b)   == a.s > b.s /\ a.f < b.f
Equal(a, b)    == a.s = b.s /\ a.f = b.f
\* one start lies strictly inside the other range, or the starts coincide (proper ranges)
Overlaps(a, b) == a.s = b.s \/ (a.s < b.s /\ b.s < a.f) \/ (b.s < a.s /\ a.s < b.f)
ContainsRng(a, b) == a.s <= b.s /\ b.f <= a.f
ContainsPos(a, p) == a.s <= p /\ p < a.f
SharesBorder(a, b) == a.f = b.s \/ b.f = a.s
Length(a) == a.f - a.s

None == [none |-> TRUE]
Intersect(a, b) == IF Points(a) \cap Points(b) = {} THEN None
                   ELSE LET P == Points(a) \cap Points(b)
                        IN Rng(CHOOSE x \in P : \A y \in P : x <= y, CHOOSE x \in P : \A y \in P : x >= y)

MinOf(S) == CHOOSE x \in S : \A y \in S : x <= y
MaxOf(S) == CHOOSE x \in S : \A y \in S : x >= y
\* smallest covering range of a list; the empty list gives the default range [0,0]
Merge(list) == IF list = <<>> THEN Rng(0, 0)
               ELSE Rng(MinOf({list[i].s : i \in DOMAIN list}), MaxOf({list[i].f : i \in DOMAIN list}))

\* what the code does today for empty operands (an empty operand is treated as a position) - drift level only
ContainsRngImpl(a, b) == IF b.s = b.f THEN ContainsPos(a, b.f) ELSE ContainsRng(a, b)
OverlapsImpl(a, b) == IF a.s = b.s THEN TRUE ELSE IF a.s < b.s THEN a.f > b.s ELSE b.f > a.s

\* ------------------------------------------------------------ laws (model-checked in MC_C20)
RangeLaws(a, b) ==
  /\ Before(a, b) <=> After(b, a)
  /\ SharesBorder(a, b) <=> SharesBorder(b, a)
  /\ (Proper(a) /\ Proper(b)) => (Overlaps(a, b) <=> Overlaps(b, a))
  /\ (Proper(a) /\ Proper(b)) => (Overlaps(a, b) <=> \E p \in (a.s..a.f) : ContainsPos(a, p) /\ ContainsPos(b, p))
  /\ (Starts(a, b) \/ Finishes(a, b) \/ During(a, b)) => (ContainsRng(b, a) /\ ~Equal(a, b))
  /\ (ContainsRng(a, b) /\ ContainsRng(b, a)) <=> Equal(a, b)
  /\ ~(Before(a, b) /\ After(a, b))
  /\ (Before(a, b) \/ After(a, b)) <=> (Intersect(a, b) = None)
  /\ Intersect(a, b) = Intersect(b, a)
  /\ Intersect(a, b) # None => /\ ContainsRng(a, Intersect(a, b)) /\ ContainsRng(b, Intersect(a, b))
                               /\ Points(Intersect(a, b)) = Points(a) \cap Points(b)
  /\ LET m == Merge(<<a, b>>) IN
       /\ ContainsRng(m, a) /\ ContainsRng(m, b)
       /\ \A s \in (m.s..m.f), f \in (m.s..m.f) :       \* minimal
             (s <= f /\ ContainsRng(Rng(s, f), a) /\ ContainsRng(Rng(s, f), b)) => Rng(s, f) = m
  \* exactly one of the 13 Allen relations holds for proper ranges
  /\ (Proper(a) /\ Proper(b)) =>
       Cardinality({r \in 1..13 :
          CASE r = 1 -> Before(a, b) [] r = 2 -> After(a, b) [] r = 3 -> Meets(a, b) [] r = 4 -> Meets(b, a)
            [] r = 5 -> (a.s < b.s /\ b.s < a.f /\ a.f < b.f) [] r = 6 -> (b.s < a.s /\ a.s < b.f /\ b.f < a.f)
            [] r = 7 -> Starts(a, b) [] r = 8 -> Starts(b, a) [] r = 9 -> Finishes(a, b) [] r = 10 -> Finishes(b, a)
            [] r = 11 -> During(a, b) [] r = 12 -> During(b, a) [] r = 13 -> Equal(a, b)}) = 1
=============================================================================
