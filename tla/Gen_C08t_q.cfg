CONSTANTS ConstIds = {"C1"}
MaxAtoms = 2
SPECIFICATION Spec
CONSTRAINT Emit
