------------------------------- MODULE SchemaOps ----------------------------
(***************************************************************************)
(* Operations that build a new schema out of existing ones (ccl::ops and   *)
(* the RSForm operation facet), written as functions of schema contents    *)
(* (list order + records of Schema.tla).                                   *)
(*                                                                         *)
(*   C13  ExtractBasis(S)  = S and everything S transitively depends on    *)
(*        MaxPart(S)       = least R >= S closed under "non-empty          *)
(*                           definition and every dependency inside R"     *)
(*        both copied in list order into an empty schema, then renumbered  *)
(***************************************************************************)
EXTENDS Schema

\* ---------------------------------------------------------------- C13: sets
DepsOfSet(c, S) == UNION {Deps(c, u) : u \in S}
RECURSIVE Basis(_, _)
Basis(c, S) == LET T == S \cup DepsOfSet(c, S) IN IF T = S THEN S ELSE Basis(c, T)
BasisDefined(c, S) == S # {} /\ S \subseteq DOMAIN c

Admits(c, R, u) == c[u].def # NoDef /\ Deps(c, u) \subseteq R
RECURSIVE MaxPart(_, _)
MaxPart(c, S) == LET T == S \cup {u \in DOMAIN c : Admits(c, S, u)} IN IF T = S THEN S ELSE MaxPart(c, T)
\* the implementation's precondition (a deliberate restriction, modelled as such): every selected constituent that is not a
\* base set or constant is either undefined or has all its dependencies selected as well
MaxPartDefined(c, S) == /\ S # {} /\ S \subseteq DOMAIN c
                        /\ \A u \in S : c[u].kind \in {"base", "constant"} \/ c[u].def = NoDef \/ Deps(c, u) \subseteq S

\* one pass over the list, as OpMaxPart::GetAllCstMaxPart does it; iterated until nothing is added
RECURSIVE ScanOnce(_, _, _, _)
ScanOnce(ord, c, i, sel) == IF i > Len(ord) THEN sel
                            ELSE ScanOnce(ord, c, i + 1, IF ord[i] \notin sel /\ Admits(c, sel, ord[i]) THEN sel \cup {ord[i]} ELSE sel)
RECURSIVE ScanFix(_, _, _)
ScanFix(ord, c, sel) == LET t == ScanOnce(ord, c, 1, sel) IN IF t = sel THEN sel ELSE ScanFix(ord, c, t)

\* ---------------------------------------------------------------- C13: the extracted schema
\* copy R in list order into an empty schema (identifiers and aliases are free there, so both are kept), then ResetAliases
SubOrder(ord, R) == SelectSeq(ord, LAMBDA u : u \in R)
Extract(ord, c, R) ==
  LET o == SubOrder(ord, R)  sub == [u \in R |-> c[u]]
  IN [order |-> o, cst |-> ResetF(o, sub), names |-> ResetNames(o, sub), map |-> ResetMap(o, sub)]

\* ---- what the statement promises about the result (model-level theorems, checked by TLC on every reachable content)
Closed(c, R) == \A u \in R : Deps(c, u) \subseteq R
SubsetsOf(S) == SUBSET S
BasisIsLeastClosed(c) ==
  \A S \in SubsetsOf(DOMAIN c) \ {{}} :
     LET B == Basis(c, S) IN
     /\ S \subseteq B /\ Closed(c, B)
     /\ \A T \in SubsetsOf(DOMAIN c) : (S \subseteq T /\ Closed(c, T)) => B \subseteq T
MaxClosed(c, R) == \A u \in DOMAIN c : Admits(c, R, u) => u \in R
MaxPartIsLeast(ord, c) ==
  \A S \in SubsetsOf(DOMAIN c) \ {{}} :
     LET M == MaxPart(c, S) IN
     /\ S \subseteq M /\ MaxClosed(c, M)
     /\ \A T \in SubsetsOf(DOMAIN c) : (S \subseteq T /\ MaxClosed(c, T)) => M \subseteq T
     /\ ScanFix(ord, c, S) = M                                      \* independent of the list order
     /\ MaxPartDefined(c, S) => \A u \in M : Deps(c, u) \subseteq M   \* nothing dangles that resolved in the source

\* a name that does not resolve in the source but is the new alias of an extracted constituent: the renumbering makes it resolve
\* (known finding K4: the alias map of ResetAliases is applied to texts that mention dangling names)
Captures(c, R, ex) ==
  \E u \in R : \E a \in DefMentions(c[u]) :
     /\ a \notin {c[x].alias : x \in DOMAIN c}
     /\ a \notin DOMAIN ex.map
     /\ a \in {ex.cst[x].alias : x \in R}
\* renaming a typification along the alias map
RECURSIVE RenType(_, _)
RenType(t, map) == IF t.k = "base" THEN (IF t.id \in DOMAIN map THEN [t EXCEPT !.id = map[t.id]] ELSE t)
                   ELSE [t EXCEPT !.c = [i \in DOMAIN t.c |-> RenType(t.c[i], map)]]
KeepsAnalysis(c, R, ex) ==
  LET a1 == Analysis(c)  a2 == Analysis(ex.cst) IN
  \A u \in R : LET r1 == a1[c[u].alias]  r2 == a2[ex.cst[u].alias] IN
     /\ r1.ok = r2.ok
     /\ r1.ok => r2.type = RenType(r1.type, ex.map)
ExtractionKeepsAnalysis(ord, c) ==
  \A S \in SubsetsOf(DOMAIN c) \ {{}} :
     /\ LET R == Basis(c, S)  ex == Extract(ord, c, R) IN Captures(c, R, ex) \/ KeepsAnalysis(c, R, ex)
     /\ MaxPartDefined(c, S) => LET R == MaxPart(c, S)  ex == Extract(ord, c, R) IN Captures(c, R, ex) \/ KeepsAnalysis(c, R, ex)
-----------------------------------------------------------------------------
(***************************************************************************)
(*   C12  Merge(S1, S2)   = S1 plus a copy of every constituent of S2     *)
(*                          (identifier / alias re-issued when taken, all  *)
(*                          mentions inside the copies follow at once)     *)
(*        Equate(S, E)    = every key of the table E is replaced by its    *)
(*                          value in all texts and erased; duplicates that *)
(*                          arise are merged                               *)
(*        Synth(S1,S2,E)  = Merge, Equate (or DeleteDuplicates when E is   *)
(*                          empty), ResetAliases; translations for both    *)
(*                          operands                                       *)
(* A schema value is [ord |-> list of identifiers, c |-> records].         *)
(***************************************************************************)
UidOf(c, a) == CHOOSE u \in DOMAIN c : c[u].alias = a
IsBaseSetKind(k) == k \in {"base", "constant"}
IsBaseNotionKind(k) == k \in {"base", "constant", "structured"}
IsRSObjectKind(k) == k \in {"base", "constant", "structured", "term"}

\* ---- merge: MergeIns / MergeSchemas are defined in Schema.tla (the bulk insertion of RSForm uses them too)

\* ---- equation table E : key identifier -> value identifier (the key is removed, the value stays)
TransDeps(c, v) == Basis(c, Deps(c, v))            \* everything v's definition depends on, transitively
\* a typification after the identification: the base name of a key stands for the elements of its value
RECURSIVE SubT(_, _, _, _, _)
SubT(t, c, an, E, fuel) ==
  IF IsBad(t) THEN t
  ELSE IF t.k = "base" THEN
    LET ks == {k \in DOMAIN E : c[k].alias = t.id} IN
    IF ks = {} THEN t
    ELSE LET v == E[CHOOSE k \in ks : TRUE]  tv == an[c[v].alias].type IN
         IF fuel = 0 \/ tv.k # "bool" THEN Bad("notASet") ELSE SubT(tv.c[1], c, an, E, fuel - 1)
  ELSE LET cs == [i \in DOMAIN t.c |-> SubT(t.c[i], c, an, E, fuel)] IN
       IF \E i \in DOMAIN cs : IsBad(cs[i]) THEN Bad("notASet") ELSE [t EXCEPT !.c = cs]
\* term references: the constituents whose aliases the term of u refers to, and everything reachable that way
RefNamesOf(q) == {q[i].s : i \in {j \in DOMAIN q : q[j].r}}
TermRefs(c, u) == {x \in DOMAIN c : c[x].alias \in RefNamesOf(c[u].term)}
RECURSIVE TermClosure(_, _)
TermClosure(c, X) == LET T == X \cup UNION {TermRefs(c, u) : u \in X} IN IF T = X THEN X ELSE TermClosure(c, T)
TermTransDeps(c, v) == TermClosure(c, TermRefs(c, v))
PairOK(S, an, E, k) ==
  LET v == E[k]  c == S.c IN
  /\ k # v /\ k \in DOMAIN c /\ v \in DOMAIN c
  /\ IsRSObjectKind(c[k].kind) /\ IsRSObjectKind(c[v].kind)
  /\ ~(~IsBaseSetKind(c[k].kind) /\ IsBaseSetKind(c[v].kind))
  /\ ~(~IsBaseNotionKind(c[k].kind) /\ IsBaseNotionKind(c[v].kind))
  /\ k \notin TransDeps(c, v)                                   \* the value is not defined through the key
  /\ k \notin TermTransDeps(c, v)                               \* nor named through the key's term
  /\ an[c[k].alias].ok /\ an[c[v].alias].ok
  /\ (IsBaseSetKind(c[k].kind) /\ ~IsBaseSetKind(c[v].kind)) => an[c[v].alias].type.k = "bool"     \* a base set can only become a set
  /\ v \notin DOMAIN E
EqAdmissible(S, E) ==
  LET an == Analysis(S.c) IN
  /\ DOMAIN E # {}
  /\ \A k \in DOMAIN E : PairOK(S, an, E, k)
  /\ \A k \in DOMAIN E :
       (~IsBaseSetKind(S.c[k].kind) /\ ~IsBaseSetKind(S.c[E[k]].kind)) =>
          LET a == SubT(an[S.c[k].alias].type, S.c, an, E, 4)  b == SubT(an[S.c[E[k]].alias].type, S.c, an, E, 4)
          IN ~IsBad(a) /\ ~IsBad(b) /\ a = b
EqPairs(E) == LET ks == SetToSeq(DOMAIN E) IN [i \in DOMAIN ks |-> <<ks[i], E[ks[i]]>>]
\* KD: the keys whose texts win (option "keep the texts of the removed constituent"; a swapped pair of a synthesis has it):
\* the value takes over the key's term and definition text; otherwise the value keeps its own
NewTermText == << [r |-> FALSE, s |-> "renamed"] >>
\* CN: the keys whose value gets a new term text (option "create a new term")
\* t: the tracking map (the keys stop being tracked; an absorbed duplicate loses its entry)
EquateT(S, t, E, KD, CN) ==
  LET names == [a \in {S.c[k].alias : k \in DOMAIN E} |-> S.c[E[UidOf(S.c, a)]].alias]
      \* the survivor's term is set like SetTerm does: a term that really changes discards the survivor's manual word forms
      \* (the removed constituent's own manual forms are not carried over)
      NewTerm(u, q) == IF q = S.c[u].term THEN S.c[u] ELSE WithoutForms([S.c[u] EXCEPT !.term = q])
      c0 == [u \in DOMAIN S.c |-> IF \E k \in KD : E[k] = u
                                   THEN LET k == CHOOSE x \in KD : E[x] = u IN [NewTerm(u, S.c[k].term) EXCEPT !.text = S.c[k].text]
                                   ELSE IF \E k \in CN : E[k] = u THEN NewTerm(u, NewTermText)
                                   ELSE S.c[u]]
      c1 == [u \in DOMAIN S.c \ DOMAIN E |-> RenRec(c0[u], names)]
      ord1 == SelectSeq(S.ord, LAMBDA u : u \notin DOMAIN E)
      d == Dedup(ord1, c1, [x \in DOMAIN t \ DOMAIN E |-> t[x]])
  IN [ord |-> d.ord, c |-> d.c, t |-> d.t, pairs |-> EqPairs(E) \o d.tr]
EquateM(S, E, KD, CN) == EquateT(S, <<>>, E, KD, CN)
Equate(S, E, KD) == EquateM(S, E, KD, {})
\* where an identifier ends up: follow erased -> absorbing pairs
RECURSIVE FinalOf(_, _, _)
FinalOf(u, pairs, fuel) ==
  LET hit == {i \in DOMAIN pairs : pairs[i][1] = u} IN
  IF hit = {} \/ fuel = 0 THEN u ELSE FinalOf(pairs[CHOOSE i \in hit : TRUE][2], pairs, fuel - 1)

\* ---- synthesis (ops::BinarySynthes): E maps identifiers of S1 to identifiers of S2
SwapNeeded(c, k, v) == c[k].kind # c[v].kind /\ ~IsBaseSetKind(c[k].kind) /\ IsBaseNotionKind(c[v].kind)
SynthPresent(S1, S2, E) == \A k \in DOMAIN E : k \in DOMAIN S1.c /\ E[k] \in DOMAIN S2.c     \* a table naming a missing constituent is refused
SynthIn(S1, S2, E, fresh) ==
  LET m == MergeSchemas(S1, S2, fresh)
      M == [ord |-> m.ord, c |-> m.c]
      E2 == [k \in DOMAIN E |-> m.tr[E[k]]]
      swaps == {k \in DOMAIN E2 : SwapNeeded(m.c, k, E2[k])}
      E3 == [x \in (DOMAIN E2 \ swaps) \cup {E2[k] : k \in swaps} |-> IF x \in DOMAIN E2 \ swaps THEN E2[x] ELSE CHOOSE k \in swaps : E2[k] = x]
      defined == DOMAIN E = {} \/ EqAdmissible(M, E3)
      eq == IF DOMAIN E = {} THEN LET d == Dedup(M.ord, M.c, <<>>) IN [ord |-> d.ord, c |-> d.c, pairs |-> d.tr] ELSE Equate(M, E3, {E2[k] : k \in swaps})
  IN IF ~defined THEN [defined |-> FALSE, merged |-> M, table |-> E3, mtr |-> m.tr]
     ELSE [defined |-> TRUE, merged |-> M, table |-> E3, mtr |-> m.tr, ord |-> eq.ord, c |-> ResetF(eq.ord, eq.c), pairs |-> eq.pairs,
           t1 |-> [u \in DOMAIN S1.c |-> FinalOf(u, eq.pairs, 8)],
           t2 |-> [u \in DOMAIN S2.c |-> FinalOf(m.tr[u], eq.pairs, 8)]]
Synth(S1, S2, E, fresh) ==
  IF SynthPresent(S1, S2, E) THEN SynthIn(S1, S2, E, fresh)
  ELSE LET m == MergeSchemas(S1, S2, fresh) IN [defined |-> FALSE, merged |-> [ord |-> m.ord, c |-> m.c], table |-> <<>>, mtr |-> m.tr]

\* ---- the contract of the statement, as predicates on (operands, table, result) - checked on the model's own results by TLC
RefNames(q) == {q[i].s : i \in {j \in DOMAIN q : q[j].r}}
NoDangling(S) == \A u \in DOMAIN S.c : DefMentions(S.c[u]) \cup RefNames(S.c[u].text) \cup RefNames(S.c[u].term) \subseteq AliasesOf(S.c)
FullyCorrect(S) == LET an == Analysis(S.c) IN \A u \in DOMAIN S.c : an[S.c[u].alias].ok
NameImage(S, t, R) == [a \in AliasesOf(S.c) |-> R.c[t[UidOf(S.c, a)]].alias]          \* operand alias -> alias of its image
LikeWithLike(c, E) == \A k \in DOMAIN E : c[k].kind = c[E[k]].kind
SynthContract(S1, S2, E, r) ==
  LET R == [ord |-> r.ord, c |-> r.c]
      keys == DOMAIN r.table
      img1 == NameImage(S1, r.t1, R)  img2 == NameImage(S2, r.t2, R)
  IN /\ Len(R.ord) = Cardinality(DOMAIN R.c) /\ {R.ord[i] : i \in DOMAIN R.ord} = DOMAIN R.c
     /\ \A u, v \in DOMAIN R.c : u # v => R.c[u].alias # R.c[v].alias                           \* unique aliases
     /\ \A u \in DOMAIN R.c : KindOfName(R.c[u].alias) = R.c[u].kind
     /\ \A u \in DOMAIN S1.c : r.t1[u] \in DOMAIN R.c                                             \* translations are total and into the result
     /\ \A u \in DOMAIN S2.c : r.t2[u] \in DOMAIN R.c
     /\ \A k \in DOMAIN E : r.t1[k] = r.t2[E[k]]                                                   \* equated pairs share their image
     \* every definition of the result is the image of the operand's definition (equation keys lose theirs to the value)
     /\ NoDangling(S1) => \A u \in DOMAIN S1.c : u \in keys \/ R.c[r.t1[u]].def = RenDef(S1.c[u].def, img1)
     /\ NoDangling(S2) => \A u \in DOMAIN S2.c : r.mtr[u] \in keys \/ R.c[r.t2[u]].def = RenDef(S2.c[u].def, img2)
     \* correct operands and a like-with-like table: the result is fully correct and every image keeps its typification
     /\ (FullyCorrect(S1) /\ FullyCorrect(S2) /\ LikeWithLike(r.merged.c, r.table)) =>
          LET an == Analysis(R.c)  a1 == Analysis(S1.c)  a2 == Analysis(S2.c) IN
          /\ \A u \in DOMAIN R.c : an[R.c[u].alias].ok
          /\ \A u \in DOMAIN S1.c : an[R.c[r.t1[u]].alias].type = RenType(a1[S1.c[u].alias].type, img1)
          /\ \A u \in DOMAIN S2.c : an[R.c[r.t2[u]].alias].type = RenType(a2[S2.c[u].alias].type, img2)
=============================================================================
