------------------------------- MODULE SchemaOps ----------------------------
(***************************************************************************)
(* Operations that build a new schema out of existing ones (ccl::ops and   *)
(* the RSForm operation facet), written as functions of schema contents    *)
(* (list order + records of Schema.tla).                                   *)
(*                                                                         *)
(*   C13  ExtractBasis(S)  = S and everything S transitively depends on    *)
(*        MaxPart(S)       = least R >= S closed under "non-empty          *)
(*                           definition and every dependency inside R"     *)
(*        both copied in list order into an empty schema, then renumbered  *)
(***************************************************************************)
EXTENDS Schema

\* ---------------------------------------------------------------- C13: sets
DepsOfSet(c, S) == UNION {Deps(c, u) : u \in S}
RECURSIVE Basis(_, _)
Basis(c, S) == LET T == S \cup DepsOfSet(c, S) IN IF T = S THEN S ELSE Basis(c, T)
BasisDefined(c, S) == S # {} /\ S \subseteq DOMAIN c

Admits(c, R, u) == c[u].def # NoDef /\ Deps(c, u) \subseteq R
RECURSIVE MaxPart(_, _)
MaxPart(c, S) == LET T == S \cup {u \in DOMAIN c : Admits(c, S, u)} IN IF T = S THEN S ELSE MaxPart(c, T)
\* the implementation's precondition (a deliberate restriction, modelled as such): every selected constituent that is not a
\* base set or constant is either undefined or has all its dependencies selected as well
MaxPartDefined(c, S) == /\ S # {} /\ S \subseteq DOMAIN c
                        /\ \A u \in S : c[u].kind \in {"base", "constant"} \/ c[u].def = NoDef \/ Deps(c, u) \subseteq S

\* one pass over the list, as OpMaxPart::GetAllCstMaxPart does it; iterated until nothing is added
RECURSIVE ScanOnce(_, _, _, _)
ScanOnce(ord, c, i, sel) == IF i > Len(ord) THEN sel
                            ELSE ScanOnce(ord, c, i + 1, IF ord[i] \notin sel /\ Admits(c, sel, ord[i]) THEN sel \cup {ord[i]} ELSE sel)
RECURSIVE ScanFix(_, _, _)
ScanFix(ord, c, sel) == LET t == ScanOnce(ord, c, 1, sel) IN IF t = sel THEN sel ELSE ScanFix(ord, c, t)

\* ---------------------------------------------------------------- C13: the extracted schema
\* copy R in list order into an empty schema (identifiers and aliases are free there, so both are kept), then ResetAliases
SubOrder(ord, R) == SelectSeq(ord, LAMBDA u : u \in R)
Extract(ord, c, R) ==
  LET o == SubOrder(ord, R)  sub == [u \in R |-> c[u]]
  IN [order |-> o, cst |-> ResetF(o, sub), names |-> ResetNames(o, sub), map |-> ResetMap(o, sub)]

\* ---- what the statement promises about the result (model-level theorems, checked by TLC on every reachable content)
Closed(c, R) == \A u \in R : Deps(c, u) \subseteq R
SubsetsOf(S) == SUBSET S
BasisIsLeastClosed(c) ==
  \A S \in SubsetsOf(DOMAIN c) \ {{}} :
     LET B == Basis(c, S) IN
     /\ S \subseteq B /\ Closed(c, B)
     /\ \A T \in SubsetsOf(DOMAIN c) : (S \subseteq T /\ Closed(c, T)) => B \subseteq T
MaxClosed(c, R) == \A u \in DOMAIN c : Admits(c, R, u) => u \in R
MaxPartIsLeast(ord, c) ==
  \A S \in SubsetsOf(DOMAIN c) \ {{}} :
     LET M == MaxPart(c, S) IN
     /\ S \subseteq M /\ MaxClosed(c, M)
     /\ \A T \in SubsetsOf(DOMAIN c) : (S \subseteq T /\ MaxClosed(c, T)) => M \subseteq T
     /\ ScanFix(ord, c, S) = M                                      \* independent of the list order
     /\ MaxPartDefined(c, S) => \A u \in M : Deps(c, u) \subseteq M   \* nothing dangles that resolved in the source

\* a name that does not resolve in the source but is the new alias of an extracted constituent: the renumbering makes it resolve
\* (known finding K4: the alias map of ResetAliases is applied to texts that mention dangling names)
Captures(c, R, ex) ==
  \E u \in R : \E a \in DefMentions(c[u]) :
     /\ a \notin {c[x].alias : x \in DOMAIN c}
     /\ a \notin DOMAIN ex.map
     /\ a \in {ex.cst[x].alias : x \in R}
\* renaming a typification along the alias map
RECURSIVE RenType(_, _)
RenType(t, map) == IF t.k = "base" THEN (IF t.id \in DOMAIN map THEN [t EXCEPT !.id = map[t.id]] ELSE t)
                   ELSE [t EXCEPT !.c = [i \in DOMAIN t.c |-> RenType(t.c[i], map)]]
KeepsAnalysis(c, R, ex) ==
  LET a1 == Analysis(c)  a2 == Analysis(ex.cst) IN
  \A u \in R : LET r1 == a1[c[u].alias]  r2 == a2[ex.cst[u].alias] IN
     /\ r1.ok = r2.ok
     /\ r1.ok => r2.type = RenType(r1.type, ex.map)
ExtractionKeepsAnalysis(ord, c) ==
  \A S \in SubsetsOf(DOMAIN c) \ {{}} :
     /\ LET R == Basis(c, S)  ex == Extract(ord, c, R) IN Captures(c, R, ex) \/ KeepsAnalysis(c, R, ex)
     /\ MaxPartDefined(c, S) => LET R == MaxPart(c, S)  ex == Extract(ord, c, R) IN Captures(c, R, ex) \/ KeepsAnalysis(c, R, ex)
=============================================================================
