"""Per-property check plans (what runs in which tier).  See DESIGN.md section 5."""
import json
import os
import subprocess
import sys

import vcore
from vcore import InfraError


def hbin(bdir, name):
    return os.path.join(bdir, name)


# ----------------------------------------------------------------------------- C14
def plan_C14(ctx):
    b = vcore.build()
    h = hbin(b, "h_graph")
    ctx.rule = ("A: every history of <= MaxLen mutator calls over Ids (TLC BFS of Gen_C14), all public queries "
                "compared on the final graph; non-trivial = final graph has >= 1 edge, distinct = distinct history. "
                "B: random histories recorded from the real UpdatableGraph, validated by Trace_C14 (PropC14 at every event).")
    ctx.assumptions = ["TLC/SANY and the CommunityModules Json/IOUtils operators are correct",
                       "the harness projection (h_graph.cpp) reads the public const API faithfully"]
    ctx.model_check("MC_C14.tla", "MC_C14.cfg")
    if ctx.quick:
        ctx.constants = {"A": ["Ids=1..3,MaxLen=3", "Ids=1..4,MaxLen=2 (+UpdatableGraph ops)"], "B": "12 traces x 150 steps, 6 ids"}
        ctx.replay("Gen_C14.tla", "Gen_C14_q3.cfg", h)
        ctx.replay("Gen_C14.tla", "Gen_C14_q4.cfg", h)
        ntr, steps, ids = 12, 150, 6
    else:
        ctx.constants = {"A": ["Ids=1..3,MaxLen=4", "Ids=1..4,MaxLen=3", "Ids=1..3,MaxLen=3 (+UpdatableGraph ops)"],
                         "B": "60 traces x 500 steps, 8 ids"}
        ctx.replay("Gen_C14.tla", "Gen_C14_t3.cfg", h, timeout=3000)
        ctx.replay("Gen_C14.tla", "Gen_C14_t4.cfg", h, timeout=3000)
        ctx.replay("Gen_C14.tla", "Gen_C14_tu.cfg", h, timeout=3000)
        ntr, steps, ids = 60, 500, 8
    ctx.exhaustive = True
    trace_stage(ctx, h, ["--record", str(ntr), "--steps", str(steps), "--ids", str(ids)], "Trace_C14.tla", "Trace_C14.cfg",
                n_traces=ntr)


def trace_stage(ctx, h, rec_args, module, cfg, tag="record", n_traces=1):
    """direction B: record from the real code, validate with a Trace_* spec, turn a rejection into a violation"""
    trace = ctx.path(ctx.pid.lower() + "-" + tag + ".ndjson")
    s = ctx.run_harness(h, list(rec_args) + ["--seed", str(ctx.seed), "--trace", trace], tag=tag)
    ok, det = ctx.validate_trace(trace, module, cfg, tag=tag + "-tlc", n_events=s["counters"].get("events"), n_traces=n_traces)
    if not ok:
        keep = save_trace(ctx, trace, det.get("prefix", 0), tag)
        ctx.add_violation(ctx.pid, "trace:" + str(det.get("invariant") or "rejected"),
                          {"trace": keep, "seed": ctx.seed, "prefix": det.get("prefix")}, det, stage="B")
    ctx.evaluations += s["counters"].get("events", 0)
    return ok


# ----------------------------------------------------------------------------- C20
def plan_C20(ctx):
    b = vcore.build()
    h = hbin(b, "h_strings")
    ctx.rule = ("A: every string of <= MaxLen code points over a 9-symbol alphabet (1-4 byte code points, space, tab, "
                "',', '-', digit) with every utility's predicted result (all code-point ranges in and out of bounds), "
                "and every list of <= 3 ranges with end points in -1..5 (all 784 pairs with all relations); "
                "non-trivial = string of >= 2 code points or list of >= 2 ranges. B: random long strings / wide ranges "
                "recorded from the real functions and checked by Trace_C20.")
    ctx.assumptions = ["inputs are well-formed UTF-8 and ranges satisfy start <= finish, position >= 0 (header preconditions)",
                       "Overlaps/Contains(range)/SharesBorder are compared exactly only for proper ranges (start < finish)"]
    ctx.model_check("MC_C20.tla", "MC_C20.cfg")
    cfg = "Gen_C20_q.cfg" if ctx.quick else "Gen_C20_t.cfg"
    ctx.constants = {"A": "MaxLen=%d, |Alphabet|=9, ranges in [-1,5], lists <= 3" % (4 if ctx.quick else 5),
                     "B": "%d recorded calls" % (4000 if ctx.quick else 40000)}
    ctx.replay("Gen_C20.tla", cfg, h)
    ctx.exhaustive = True
    trace_stage(ctx, h, ["--record", str(4000 if ctx.quick else 40000)], "Trace_C20.tla", "Trace_C20.cfg")


def save_trace(ctx, trace, prefix, tag=""):
    """keep the prefix of a rejected trace (up to and including the offending event) as the replay artefact"""
    d = os.path.join(vcore.BUILD, "replays")
    os.makedirs(d, exist_ok=True)
    dst = os.path.join(d, "%s-trace-%s%d.ndjson" % (ctx.pid, tag, ctx.seed))
    with open(trace) as f, open(dst, "w") as g:
        for i, line in enumerate(f):
            if prefix and i >= prefix:
                break
            g.write(line)
    return dst


PLANS = {
    "C14": plan_C14,
    "C20": plan_C20,
}

HARNESS_OF = {"C14": "h_graph", "C20": "h_strings"}
TRACE_SPEC_OF = {"C14": ("Trace_C14.tla", "Trace_C14.cfg"), "C20": ("Trace_C20.tla", "Trace_C20.cfg")}


def replay(pid, path):
    """Re-execute exactly one stored violation: a CASE (direction A) or a trace prefix (direction B)."""
    b = vcore.build()
    if path.endswith(".ndjson"):
        mod, cfg = TRACE_SPEC_OF[pid]
        ctx = vcore.Ctx(pid, "quick", 0)
        ok, det = ctx.validate_trace(path, mod, cfg)
        print("trace accepted" if ok else "trace REJECTED: %s\n%s" % (det.get("invariant"), det.get("tlc_tail", "")))
        return 0 if ok else 1
    doc = json.load(open(path))
    case = doc.get("case", doc)
    if isinstance(case, dict) and "trace" in case and os.path.exists(str(case["trace"])):
        return replay(pid, case["trace"])
    harness = doc.get("harness") or HARNESS_OF[pid]
    r = subprocess.run([hbin(b, harness), "--no-isolate", "--verbose"] + doc.get("harness_args", []),
                       input=json.dumps(case) + "\n", stdout=subprocess.PIPE, text=True)
    try:
        summ = json.loads(r.stdout)
    except Exception:
        print(r.stdout)
        return 2
    mine = [v for v in summ["violations"] if v["property"] == pid]
    for v in mine:
        print("VIOLATION property=%s replay=%s what=%s" % (pid, path, v["what"]))
        print(json.dumps(v, ensure_ascii=False, indent=1))
    if not mine:
        print("no violation reproduced for %s on this tree" % pid)
    return 1 if mine else 0
