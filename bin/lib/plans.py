"""Per-property check plans (what runs in which tier).  See DESIGN.md section 5."""
import json
import os
import subprocess
import sys

import vcore
from vcore import InfraError


def hbin(bdir, name):
    return os.path.join(bdir, name)


# ----------------------------------------------------------------------------- C14
def plan_C14(ctx):
    b = vcore.build()
    h = hbin(b, "h_graph")
    ctx.rule = ("A: every history of <= MaxLen mutator calls over Ids (TLC BFS of Gen_C14), all public queries "
                "compared on the final graph; non-trivial = final graph has >= 1 edge, distinct = distinct history. "
                "B: random histories recorded from the real UpdatableGraph, validated by Trace_C14 (PropC14 at every event).")
    ctx.assumptions = ["TLC/SANY and the CommunityModules Json/IOUtils operators are correct",
                       "the harness projection (h_graph.cpp) reads the public const API faithfully"]
    ctx.model_check("MC_C14.tla", "MC_C14.cfg")
    # the same invariant for histories of any length over any identifiers (Apalache, inductive)
    ctx.inductive("CGraphInd.tla", "GInit", "IndInit", "GNext", "EdgesLive")
    if ctx.quick:
        ctx.constants = {"A": ["Ids=1..3,MaxLen=3", "Ids=1..4,MaxLen=2 (+UpdatableGraph ops)"], "B": "12 traces x 150 steps, 6 ids"}
        ctx.replay("Gen_C14.tla", "Gen_C14_q3.cfg", h)
        ctx.replay("Gen_C14.tla", "Gen_C14_q4.cfg", h)
        ntr, steps, ids = 12, 150, 6
    else:
        ctx.constants = {"A": ["Ids=1..3,MaxLen=4", "Ids=1..4,MaxLen=3", "Ids=1..3,MaxLen=3 (+UpdatableGraph ops)"],
                         "B": "60 traces x 500 steps, 8 ids"}
        ctx.replay("Gen_C14.tla", "Gen_C14_t3.cfg", h, timeout=3000)
        ctx.replay("Gen_C14.tla", "Gen_C14_t4.cfg", h, timeout=3000)
        ctx.replay("Gen_C14.tla", "Gen_C14_tu.cfg", h, timeout=3000)
        ntr, steps, ids = 60, 500, 8
    ctx.exhaustive = True
    trace_stage(ctx, h, ["--record", str(ntr), "--steps", str(steps), "--ids", str(ids)], "Trace_C14.tla", "Trace_C14.cfg",
                n_traces=ntr)


def trace_stage(ctx, h, rec_args, module, cfg, tag="record", n_traces=1):
    """direction B: record from the real code, validate with a Trace_* spec, turn a rejection into a violation"""
    trace = ctx.path(ctx.pid.lower() + "-" + tag + ".ndjson")
    s = ctx.run_harness(h, list(rec_args) + ["--seed", str(ctx.seed), "--trace", trace], tag=tag)
    ok, det = ctx.validate_trace(trace, module, cfg, tag=tag + "-tlc", n_events=s["counters"].get("events"), n_traces=n_traces)
    if not ok:
        keep = save_trace(ctx, trace, det.get("prefix", 0), tag)
        ctx.add_violation(ctx.pid, "trace:" + str(det.get("invariant") or "rejected"),
                          {"trace": keep, "seed": ctx.seed, "prefix": det.get("prefix")}, det, stage="B")
    ctx.evaluations += s["counters"].get("events", 0)
    return ok


# ----------------------------------------------------------------------------- C20
def plan_C20(ctx):
    b = vcore.build()
    h = hbin(b, "h_strings")
    ctx.rule = ("A: every string of <= MaxLen code points over a 9-symbol alphabet (1-4 byte code points, space, tab, "
                "',', '-', digit) with every utility's predicted result (all code-point ranges in and out of bounds), "
                "and every list of <= 3 ranges with end points in -1..5 (all 784 pairs with all relations); "
                "non-trivial = string of >= 2 code points or list of >= 2 ranges. B: random long strings / wide ranges "
                "recorded from the real functions and checked by Trace_C20.")
    ctx.assumptions = ["inputs are well-formed UTF-8 and ranges satisfy start <= finish, position >= 0 (header preconditions)",
                       "Overlaps/Contains(range)/SharesBorder are compared exactly only for proper ranges (start < finish)"]
    ctx.model_check("MC_C20.tla", "MC_C20.cfg")
    # the arithmetic interval laws for ALL integer ranges, not only the window TLC enumerates (Apalache)
    ctx.inductive("RangesInd.tla", "Init", "Init", "Next", "Laws")
    cfg = "Gen_C20_q.cfg" if ctx.quick else "Gen_C20_t.cfg"
    ctx.constants = {"A": "MaxLen=%d, |Alphabet|=9, ranges in [-1,5], lists <= 3" % (4 if ctx.quick else 5),
                     "B": "%d recorded calls" % (4000 if ctx.quick else 40000)}
    ctx.replay("Gen_C20.tla", cfg, h)
    ctx.exhaustive = True
    trace_stage(ctx, h, ["--record", str(4000 if ctx.quick else 40000)], "Trace_C20.tla", "Trace_C20.cfg")


# ----------------------------------------------------------------------------- C16
def plan_C16(ctx):
    b = vcore.build()
    bs = vcore.build(san=True)
    h, hs = hbin(b, "h_sdcompact"), hbin(bs, "h_sdcompact")
    ctx.rule = ("A: every typification up to MaxDepth (plus set-followed-by-sibling shapes up to depth 4) x explored "
                "compatible values (all of Dom while element domains are small, thinned above) -> round trip on the "
                "implementation (RoundTripTheorem checked on the model for the same pairs); one-cell / one-row mutants "
                "of packed tables and every ragged table within MaxRows x MaxCols over Cells against 12 typifications "
                "-> Unpack returns, and returns nothing or a compatible value (ASan+UBSan build, forked batches). "
                "non-trivial = table with >= 2 rows or >= 2 cells; distinct = distinct (type, value) or table. "
                "B: random types (depth <= 4), values and damaged tables recorded from the real code, validated by Trace_C16.")
    ctx.assumptions = ["memory safety is observed under ASan+UBSan on model-generated inputs, not proved (DESIGN 2.6)",
                       "exact table layout (FromSData.data = Pack) is compared at drift level only"]
    cfg = "Gen_C16_q.cfg" if ctx.quick else "Gen_C16_t.cfg"
    ctx.constants = {"cfg": open(os.path.join(vcore.TLA, cfg)).read().split("SPECIFICATION")[0].split()}
    # the generator run is also the model-internal check (INVARIANT RoundTripTheorem over every visited (t, v))
    ctx.replay("Gen_C16.tla", cfg, hs, tag="asan-" + cfg[:-4], timeout=3000, xss="64m")
    n = 4000 if ctx.quick else 60000
    trace_stage(ctx, h, ["--record", str(n)], "Trace_C16.tla", "Trace_C16.cfg")
    trace_stage(ctx, hs, ["--record", str(n // 2)], "Trace_C16.tla", "Trace_C16.cfg", tag="record-asan")


# ----------------------------------------------------------------------------- C15
def plan_C15(ctx):
    b = vcore.build()
    h = hbin(b, "h_values")
    ctx.rule = ("A: every ordered pair of construction recipes of one typification (enumerations in any order with "
                "duplicates, singletons, lazy power sets, lazy products; 8 typifications up to B(B(B(X))) and "
                "B(B(X)*X)) with the mathematical answer to every query, and every history of <= MaxHist "
                "Copy/AddElement/Assign steps on three handles that start as copies of one value; "
                "non-trivial = left operand non-empty set, or history of >= 2 steps. "
                "B: random recipes over up to 7 elements with lazy sets beyond the 100-element cache, validated by Trace_C15.")
    ctx.assumptions = ["AddElement on a lazy (power set / product) representation is outside the compared space: the property does not fix it"]
    ctx.model_check("MC_C15.tla", "MC_C15.cfg")
    cfg = "Gen_C15_q.cfg" if ctx.quick else "Gen_C15_t.cfg"
    ctx.constants = {"cfg": open(os.path.join(vcore.TLA, cfg)).read().split("SPECIFICATION")[0].split()}
    ctx.replay("Gen_C15.tla", cfg, h, xss="64m", timeout=3000)
    # the same families over element identifiers that are more than 2^31 apart (IdOf <- WideId)
    ctx.replay("Gen_C15.tla", cfg[:-4] + "w.cfg", h, tag=cfg[:-4] + "w", xss="64m", timeout=3000)
    ctx.exhaustive = True
    trace_stage(ctx, h, ["--record", str(400 if ctx.quick else 6000)], "Trace_C15.tla", "Trace_C15.cfg")


# ----------------------------------------------------------------------------- C17
def plan_C17(ctx):
    b = vcore.build()
    bs = vcore.build(san=True)
    h, hs = hbin(b, "h_refs"), hbin(bs, "h_refs")
    ctx.rule = ("A: every text of <= MaxAtoms atoms over the atom alphabet of Gen_C17 (markers, separators, entity names "
                "incl. missing / empty-term / manual-form ones, tags, offsets incl. out-of-range, 1-4 byte plain text, "
                "whole references) -> ExtractAll, Resolve (text, ranges), OutputRefs, Referals, TranslateRaw compared with "
                "Refs.tla; every history of <= MaxOps Insert/EraseIn calls on 4 resolved pool texts -> contract + alignment; "
                "run in the ASan+UBSan build in forked batches (a fault is a violation). non-trivial = text with >= 1 valid "
                "reference or history with >= 1 call. B: 10-30 atom random texts and random range operations recorded from "
                "the real manager, validated by Trace_C17.")
    ctx.assumptions = ["texts with an unterminated '@{' marker are compared at drift level only (the statement does not say whether inner/later markers count)",
                       "placeholder wording for unresolvable references is not compared; the default (identity) text processor is used",
                       "memory safety is observed under ASan+UBSan on model-generated inputs, not proved"]
    cfgs = ["Gen_C17_q.cfg", "Gen_C17_q2.cfg"] if ctx.quick else ["Gen_C17_t.cfg", "Gen_C17_t2.cfg"]
    ctx.constants = {c: open(os.path.join(vcore.TLA, c)).read().split("SPECIFICATION")[0].split() for c in cfgs}
    for c in cfgs:
        if ctx.quick:
            ctx.replay("Gen_C17.tla", c, hs, tag="asan-" + c[:-4], timeout=3000, xss="64m")
        else:
            # thorough: every case in the release build, a 1-in-8 hash sample of the same cases under ASan+UBSan
            ctx.replay("Gen_C17.tla", c, h, tag=c[:-4], timeout=3400, xss="64m")
            ctx.replay("Gen_C17.tla", c, hs, ["--sample", "8"], tag="asan-sample-" + c[:-4], timeout=3400, xss="64m")
    ctx.exhaustive = True
    n = 300 if ctx.quick else 4000
    trace_stage(ctx, h, ["--record", str(n)], "Trace_C17.tla", "Trace_C17.cfg")
    trace_stage(ctx, hs, ["--record", str(n // 2)], "Trace_C17.tla", "Trace_C17.cfg", tag="record-asan")


# ----------------------------------------------------------------------------- language layer: C01 C02 C03 C05 C06
LANG_RULE = ("A: expression trees built by TLC (Gen_Lang): stage 1 = every one-constructor tree over the leaves "
             "{X1, S1, S2, C1, 1, {} , local a} plus ~4000 feature seeds (filters with both parameter forms, both recursion "
             "forms, imperative blocks with iterate/assign/guard, tuple-pattern and enumerated binders, calls of plain and "
             "templated term-functions and a predicate); stage 2 = every wrapping of a stage-1 tree in one more constructor. "
             "Each tree is rendered from the specification's token sequences (RSSyntax) in 3 parenthesisations (only the necessary pairs / every admissible redundant pair / every pair written twice) x MATH/ASCII x "
             "spacings, parsed, type-checked and evaluated under 3 interpretations. non-trivial = accepted tree with >= 1 "
             "operator; distinct = distinct tree. ")


def lang_plan(ctx, props, san=False, extra_rule="", syntax=False, sample_m=0):
    b = vcore.build(san=san)
    h = hbin(b, "h_lang")
    ctx.rule = LANG_RULE + extra_rule
    pre = "asan-" if san else ""
    ctx.constants = {"quick": "Gen_Lang_q (stage 1: one-constructor trees + feature seeds)" + (" + Gen_Syntax (operator triples, constructors, Greek names)" if syntax else ""),
                     "thorough": "quick + Gen_Lang_m (stage 2 with X1, S1, S2 as siblings: ~1.5M trees)",
                     "interpretations": 3, "renderings_per_tree": "3 parenthesisations x 2 syntaxes x up to 4 spacings"}
    if syntax:
        ctx.replay("Gen_Syntax.tla", "Gen_Syntax.cfg", h, ["--props", ",".join(props)], tag=pre + "Gen_Syntax", timeout=1500, xss="64m")
    ctx.replay("Gen_Lang.tla", "Gen_Lang_q.cfg", h, ["--props", ",".join(props)], tag=pre + "Gen_Lang_q", timeout=1500, xss="64m", xmx="12g")
    if not ctx.quick:
        if san:
            # thorough with sanitizers: every two-constructor tree in the release build, a 1-in-8 hash sample of them under ASan+UBSan
            ctx.replay("Gen_Lang.tla", "Gen_Lang_m.cfg", hbin(vcore.build(), "h_lang"), ["--props", ",".join(props)], tag="Gen_Lang_m", timeout=3400, xss="64m", xmx="12g")
            ctx.replay("Gen_Lang.tla", "Gen_Lang_m.cfg", h, ["--props", ",".join(props), "--sample", "8"], tag=pre + "sample-Gen_Lang_m", timeout=3400, xss="64m", xmx="12g")
        else:
            ctx.replay("Gen_Lang.tla", "Gen_Lang_m.cfg", h, ["--props", ",".join(props)], tag=pre + "Gen_Lang_m", timeout=3400, xss="64m", xmx="12g")
    elif sample_m:
        # quick tier: a hash sample (1 in sample_m, chosen by VERIF_SEED) of the two-constructor trees
        ctx.replay("Gen_Lang.tla", "Gen_Lang_m.cfg", h, ["--props", ",".join(props), "--sample", str(sample_m)], tag=pre + "Gen_Lang_m-sample", timeout=3400, xss="64m", xmx="12g")
        ctx.constants["quick"] += " + 1/%d hash sample of Gen_Lang_m (two-constructor trees)" % sample_m
    ctx.exhaustive = True


def plan_C06(ctx):
    ctx.assumptions = ["token spellings per syntax are a table of the harness transcribed from the two lexer specifications",
                       "trees are limited to the constructor set of Gen_Lang (function definitions with one or two declared arguments; no global declarations)"]
    lang_plan(ctx, ["C06"], syntax=True, extra_rule="C06 compares the parsed tree with the specification tree and every node range with the span "
              "of its production; FindMinimalNode must return an innermost node.")


def plan_C05(ctx):
    ctx.assumptions = ["ASCII output is compared modulo the fixed Greek transliteration table (all 25 letters are generated as local names)"]
    lang_plan(ctx, ["C05"], syntax=True, extra_rule="C05 prints every parsed tree in both syntaxes, re-parses, and converts to the other syntax and back.")


def plan_C03(ctx):
    ctx.assumptions = ["error codes and positions inside the expression are not compared (drift level)",
                       "value classes and declared arguments are compared for the function definitions of SeedFunc and for every accepted tree (VClass)"]
    lang_plan(ctx, ["C03"], sample_m=24, extra_rule="C03 compares the verdict and the typification string with RSTyping.TypeOf.")


def plan_C01(ctx):
    ctx.assumptions = ["an implementation outcome is admissible iff it equals the kleene value or it is a failure where the strict "
                       "evaluation fails (RSEval.Admissible); recursions the model cannot finish within its fuel are skipped and counted"]
    lang_plan(ctx, ["C01"], sample_m=24, extra_rule="C01 compares every evaluation outcome with RSEval (strict / kleene).")


def plan_C02(ctx):
    ctx.assumptions = ["type soundness of the rules is model-checked (INVARIANT Sound) on every generated tree; absence of faults is "
                       "observed in an ASan+UBSan build on the same executions, not proved"]
    lang_plan(ctx, ["C02"], san=True, extra_rule="C02: INVARIANT Sound on the model; on the implementation no fault, no unknownError, "
              "truth value iff LOGIC, value deeply compatible with the reported typification.")


# ----------------------------------------------------------------------------- C04
def plan_C04(ctx):
    b = vcore.build()
    bs = vcore.build(san=True)
    h, hs = hbin(b, "h_input"), hbin(bs, "h_input")
    ctx.rule = ("A: every sequence of <= MaxSeq atoms over the lexical alphabet Sigma (all tokens of both syntaxes, identifiers of "
                "every constituent kind, in- and out-of-range literals, 14 junk byte atoms), every one-token edit (delete, replace, "
                "insert, duplicate, transpose) of valid renderings of Gen_Syntax trees, and every single-field damage of a schema "
                "document; each spelled in MATH and ASCII, spaced and tight, under hints MATH / ASCII / auto, through Parser::Parse, "
                "Auditor::CheckExpression/CheckValue, Interpreter::Evaluate, api::ParseExpression, RSFormJA::CheckExpression/"
                "CheckConstituenta/FromJSON/ToJSON, ConvertTo, pyconcept's seven wrappers, Reference::Parse/ExtractAll, "
                "RefsManager::Resolve, SubstituteGlobals, in an ASan+UBSan build in forked batches. "
                "non-trivial = >= 2 atoms; distinct = distinct atom sequence. B: one event per call recorded and checked by TLC (Post).")
    ctx.assumptions = ["termination / memory safety are observed (watchdog, sanitizers) on model-generated inputs, not proved",
                       "for the JSON analyses success means parseResult and valueClass != invalid; positions of CheckConstituenta are relative to '<alias>:==<definition>' (prefixLen)"]
    cfgs = ["Gen_C04_q.cfg", "Gen_C04_q2.cfg"] if ctx.quick else ["Gen_C04_t.cfg"]
    ctx.constants = {c: open(os.path.join(vcore.TLA, c)).read().split("SPECIFICATION")[0].split() for c in cfgs}
    ctx.constants["asan"] = "every 6th case (by hash) in quick, every 4th in thorough"
    for c in cfgs:
        # all cases in the optimised build (faults, Post), and the sanitizer build on a hash-sample (1/6 quick, 1/4 thorough)
        ctx.replay("Gen_C04.tla", c, h, tag=c[:-4], timeout=3400 if ctx.quick else 9000, xss="64m")
        ctx.replay("Gen_C04.tla", c, hs, ["--sample", "6"] if ctx.quick else ["--sample", "4"], tag="asan-" + c[:-4], timeout=3400 if ctx.quick else 9000, xss="64m")
    ctx.exhaustive = True
    src = ctx.path("c04-cases.txt")
    ctx.generate("Gen_C04.tla", "Gen_C04_q2.cfg", src, every=(40 if ctx.quick else 8))
    trace_stage(ctx, h, ["--record", "100000", "--in", src], "Trace_C04.tla", "Trace_C04.cfg")


# ----------------------------------------------------------------------------- C18
def plan_C18(ctx):
    b = vcore.build()
    h = hbin(b, "h_reuse")
    ctx.rule = ("A: every sequence of <= MaxLen inputs from the pool of 40 state-leaving inputs of Gen_C18 (function definitions, "
                "multi-line MATH text, failures in lexer / parser / checker inside nested scopes / evaluator, iteration limit, long "
                "evaluations, global declarations, calls, both syntaxes) fed to one Parser, one Auditor, one Interpreter and through "
                "the shared static generators; after the last input every observable (verdict, errors with positions and parameters, "
                "tree with ranges, AST text, generated text in both syntaxes, type, declared arguments, value class, value, iteration "
                "count) is compared with freshly constructed objects. non-trivial = sequence of >= 2 inputs.")
    ctx.assumptions = ["the specification of a reused analyser is statelessness (out[k] = F(in[k], ctx)); the oracle for F is a fresh instance of the same code",
                       "iteration counts are compared for successful evaluations only (as the statement says)"]
    cfg = "Gen_C18_q.cfg" if ctx.quick else "Gen_C18_t.cfg"
    ctx.constants = {"MaxLen": 3 if ctx.quick else 4, "pool": 40}
    ctx.replay("Gen_C18.tla", cfg, h, timeout=3000)
    ctx.exhaustive = True


# ----------------------------------------------------------------------------- schema: C07 C08 C09 C10
SCHEMA_RULE = ("A: every history of <= MaxLen public mutator calls of RSForm generated by TLC from Schema.tla (Gen_Schema presets: "
               "'ids' all operations with colliding / ill-formed aliases and identifiers, incl. bulk insertion of two or three records that mention each other (both bulk overloads); 'deps' definitions creating, breaking and "
               "cycling dependencies; 'kinds' every constituent kind incl. functions, calls, axioms, structures, ill-typed / unparsable / "
               "dangling definitions; 'names' renamings with prefix names, chains and mentions in definitions, conventions, references; "
               "'texts' X1, D1, D2 created by script, then every sequence of SetTerm / SetText / SetAlias-with-substitution / Erase that builds, re-points, renames and "
               "breaks chains of references term <- term <- definition text, sets manual word forms (SetTermFormFor), with other word forms than the nominal one and two references glued together; "
               "'proj' X1, D1 := X1 x B(X1), D2 := Pr1(D1) by script, then definitions that differ only in the index of a projection), "
               "replayed on a real RSForm with the identifier hook; after the last call the projected state is compared with the "
               "specification's content and from-scratch Analysis, with a copy reloaded from JSON, and the C09 invariants are evaluated "
               "after every call. non-trivial = history of >= 2 calls; distinct = distinct history. ")


def schema_plan(ctx, props, presets, trace=False):
    b = vcore.build()
    h = hbin(b, "h_schema")
    ctx.rule = SCHEMA_RULE + ("B: random histories of 200 steps over up to 12 constituents (identifier order policy by seed) recorded from the "
                              "real RSForm and validated event by event by Trace_Schema (content, Analysis, SchemaInv)." if trace else "")
    ctx.constants = {}
    for pr in presets:
        # "9@q": this preset keeps its quick bound in the thorough tier too (it is run at the thorough bound by another check)
        keep_quick = pr.endswith("@q")
        pr = pr[:-2] if keep_quick else pr
        cfg = "Gen_Schema_%s%s.cfg" % ("q" if (ctx.quick or keep_quick) else "t", pr)
        ctx.constants[cfg] = open(os.path.join(vcore.TLA, cfg)).read().split("SPECIFICATION")[0].split()
        ctx.replay("Gen_Schema.tla", cfg, h, ["--props", ",".join(props)], tag=cfg[:-4], timeout=3400 if ctx.quick else 9000, xss="64m", xmx="12g")
    ctx.exhaustive = True
    if trace:
        ntr = 12 if ctx.quick else 120
        trace_stage(ctx, h, ["--record", str(ntr), "--steps", "200", "--cst", "12"], "Trace_Schema.tla", "Trace_Schema.cfg", n_traces=ntr)


def plan_C09(ctx):
    ctx.assumptions = ["INVARIANT SchemaInv is checked by TLC on the specification for the same histories (model level)",
                       "exact re-issued aliases / list positions are compared at drift level; the property level is the invariants on the projected implementation state and 'refused => unchanged'"]
    schema_plan(ctx, ["C09"], ["9", "9d", "8@q"], trace=True)      # the thorough 'names' preset (9 M histories) belongs to C08


def plan_C07(ctx):
    ctx.assumptions = ["from-scratch analysis is (i) Schema.tla's Analysis (least fixpoint over RSTyping) and (ii) a copy reloaded from the saved document",
                       "resolved term / definition texts are compared only when term references are acyclic"]
    schema_plan(ctx, ["C07"], ["7a", "7b", "7t", "7p", "9@q", "8@q"], trace=True)   # thorough 'ids' belongs to C09, 'names' to C08


def plan_C08(ctx):
    ctx.assumptions = ["schema-level clause: content after SetAliasFor / ResetAliases / re-issuing InsertCopy equals the specification's renamed content exactly (definitions, conventions, reference texts)"]
    schema_plan(ctx, ["C08", "C07"], ["8", "7t"])
    # text level: the translation functions themselves (every renaming goes through them)
    ctx.assumptions.append("text-level clause: rslang::TranslateRS / SubstituteGlobals on expressions and ManagedText::TranslateRaw on texts with references, "
                           "for maps of one or two entries (length-changing and same-length replacements in either order, names that are prefixes of each "
                           "other, a local spelt like a global, multi-byte symbols around and inside references); a translated reference is compared in the "
                           "library's own canonical spelling of that single reference")
    cfg = "Gen_C08t_%s.cfg" % ("q" if ctx.quick else "t")
    ctx.constants[cfg] = open(os.path.join(vcore.TLA, cfg)).read().split("SPECIFICATION")[0].split()
    ctx.replay("Gen_C08t.tla", cfg, hbin(vcore.build(), "h_translate"), [], tag=cfg[:-4], timeout=3400, xss="64m", xmx="12g")


OPS_RULE = ("A: every schema reachable by <= MaxLen insertions / erasures (Gen_Schema preset 'ops': base sets, terms whose definitions mention "
            "earlier, later, erased and never-existing constituents, an ill-typed term, an axiom) x every non-empty selection of its "
            "constituents plus one with a foreign identifier: TLC (Gen_Ops over SchemaOps.tla) predicts for OpExtractBasis and OpMaxPart "
            "whether the operation is defined, the members in list order, the new aliases and the rewritten definitions; the real "
            "operations are executed on a real RSForm and compared (members, order, aliases, definitions, no dependency left behind, "
            "status and typification kept, source untouched).  BasisTheorem / MaxPartTheorem (least closed sets, independence of the "
            "list order via the iterated scan) / AnalysisTheorem (from-scratch Analysis of the result = Analysis of the source up to the "
            "renaming) are TLC invariants on every reachable content.  non-trivial = history of >= 2 calls.  B: Extract events (random "
            "selections on schemas of up to 12 constituents in the middle of random editing histories) validated by Trace_Schema/PropExtract. ")


def plan_C13(ctx):
    b = vcore.build()
    h = hbin(b, "h_schema")
    ctx.rule = OPS_RULE
    ctx.assumptions = ["OpMaxPart's precondition (selected non-base constituents are undefined or have all dependencies selected) is modelled as the "
                       "operation's domain; a well-formed selection that is refused is a violation, an accepted one the model refuses is drift",
                       "known finding K4: a never-resolving name that coincides with a new alias becomes resolvable after the renumbering (status changes)"]
    cfg = "Gen_Ops_%s.cfg" % ("q" if ctx.quick else "t")
    ctx.constants = {cfg: open(os.path.join(vcore.TLA, cfg)).read().split("SPECIFICATION")[0].split()}
    ctx.replay("Gen_Ops.tla", cfg, h, ["--props", "C13"], tag=cfg[:-4], timeout=3400, xss="64m", xmx="12g")
    ctx.exhaustive = True
    ntr = 12 if ctx.quick else 120
    trace_stage(ctx, h, ["--record", str(ntr), "--steps", "200", "--cst", "12", "--extract", "1"], "Trace_Schema.tla", "Trace_Ops.cfg", n_traces=ntr)


SYNTH_RULE = ("A: every pair of operand schemas built from a 12-entry pool (base sets; terms X1, B(X1), D1 u X1, X2, D1 \\ D2, debool({X1}), "
              "debool(X1); definition texts with references to D1 / D2 / X1; terms whose term text names X1 or D1), first operand <= MaxA constituents, second <= MaxB with "
              "overlapping or disjoint identifiers, x every equation table of <= MaxPairs pairs (base-base, base-term incl. the swapped "
              "direction, term-term of equal and unequal typification, two keys on one value, values defined through keys), plus tables "
              "inside one schema of <= 4 constituents (Ops().IsEquatable / Equate) with the options keep / take the removed side's texts / new term, "
              "a value named through its key's term (refused), also a second table on the result of a first one.  TLC (Gen_Synth over SchemaOps.tla) predicts defined / refused, the result "
              "(order, identifiers, aliases, definitions, texts, statuses, typifications) and both translations, and checks SynthContract "
              "(the statement as a predicate) on its own result as an invariant.  The real BinarySynthes / Equate is executed with the "
              "identifier hook; the contract is evaluated on the implementation's own result (C09 invariants on the result, translations "
              "total and into the result, equated pairs share an image, every image's definition / text is the operand's with every "
              "mention rewritten, full correctness and typifications for correct operands with like-with-like tables, refusal changes "
              "nothing, operands untouched); the model's exact result is compared at drift level.  non-trivial = >= 3 constituents+pairs.  "
              "B: long random editing histories recorded from a real RSForm (Trace_Schema.tla with Trace_Eq.cfg): Equate events on the live schema "
              "(tables drawn until one is admissible, every fourth one taken as drawn; options keep / take / new term; tracked constituents) change the "
              "specification state through SchemaOps!EquateT, verdict and translation are compared (PropEquate) and the full report of the "
              "schema afterwards with from-scratch Analysis (PropSchema); Synth events run BinarySynthes on the live schema and an earlier "
              "copy of it (heavily overlapping identifiers, up to 18 constituents in the merge) and compare verdict, result (order, identifiers, aliases, kinds, "
              "statuses, typifications) and both translations with SchemaOps!Synth (PropSynth). ")


def plan_C12(ctx):
    b = vcore.build()
    h = hbin(b, "h_synth")
    ctx.rule = SYNTH_RULE
    ctx.assumptions = ["operands whose definitions or texts mention a name that resolves nowhere are excluded from the image-of-definition clause (such a name may start to resolve after merging, cf. K4)",
                       "the texts of an equated pair follow the table's keep / replace / new-term option (a swapped pair keeps the removed side's texts) and are compared with the model only; two keys on one value are generated with the default option only (competing options depend on the processing order)",
                       "admissibility is the implementation's documented rule set as modelled in EqAdmissible; a base set equated with a non-set term is inadmissible (repaired defect D23)"]
    ctx.constants = {}
    for cfg in (["Gen_Synth_q.cfg", "Gen_Synth_q2.cfg", "Gen_Synth_qe.cfg"] if ctx.quick else ["Gen_Synth_q2.cfg", "Gen_Synth_qe.cfg", "Gen_Synth_t.cfg"]):
        ctx.constants[cfg] = open(os.path.join(vcore.TLA, cfg)).read().split("SPECIFICATION")[0].split()
        ctx.replay("Gen_Synth.tla", cfg, h, [], tag=cfg[:-4], timeout=3400, xss="64m", xmx="16g")
    ctx.exhaustive = True
    # B: equations on the live schema of long random editing histories, syntheses of the live schema with an earlier copy of itself
    ntr = 40 if ctx.quick else 400
    ctx.constants["B"] = "%d recorded histories x 60 calls, <= 9 constituents, ~8%% of the calls are Equate / Synth / Snapshot" % ntr
    trace_stage(ctx, hbin(b, "h_schema"), ["--record", str(ntr), "--steps", "60", "--cst", "9", "--equate", "1"], "Trace_Schema.tla", "Trace_Eq.cfg", n_traces=ntr)


OSS_RULE = ("A: every history of <= MaxLen calls on an operation schema and its environment (InsertBase, InsertOperation incl. refused ones, "
            "Erase incl. non-leaves, ConnectNew = the environment creates a source and the pictogram is connected to it, Edit = the user "
            "changes the schema held by a source (base set added / removed, text only, a term added to a result), Save = the source "
            "manager announces the pending change, InitFor merge / synthesis with and without equation table, Execute, ExecuteAll, "
            "Lock = the environment makes a result source read-only, Close / Open = the source manager closes (announcing first) and re-opens a source, "
            "Drop = the environment closes a source WITHOUT announcing its pending change, Edit userPair = two user additions the first of which mentions the second), from "
            "the presets 'empty', 'chain' (l2 = op(op(b1,b2), b3)), 'diamond' (top = op(op(b1,b2), op(b2,b3))), 'synt' (equation table, "
            "grandchild over a shared base), 'stale' (chain with an outdated l2 whose source is read-only), 'grid' (layout only: insert, erase, "
            "ShiftPict, LoadPosition); generated by TLC from OSS.tla with the predicted pictograms, parents, statuses, flags and "
            "contents after the last call and after announcing everything.  Structure and Fresh (C19 on the model) are TLC invariants.  "
            "Replayed on a real OSSchema with upstream's FakeSourceManager as environment: structure invariants after every call "
            "(two distinct existing parents, acyclic, one grid cell, one handle, only leaves erased), after every successful Execute the "
            "stored result against ops::BinarySynthes on the parents' current schemas and the user's additions carried over, and for "
            "every operation that reports done the same comparison once everything has been announced.  Reload = the document is saved, "
            "the schema object and its sources are closed, the document is loaded with its items rotated and the sources are re-opened: "
            "nothing may change.  non-trivial = >= 2 calls.  B: random histories of 40 calls over up to 7 pictograms recorded from the "
            "real OSSchema and validated call by call by Trace_OSS (view = model's view, Structure, Fresh). ")


def plan_C19(ctx):
    b = vcore.build()
    h = hbin(b, "h_oss")
    ctx.rule = OSS_RULE
    ctx.assumptions = ["the source manager is upstream's test double (ccl/core/test/utils/FakeSourceManager.hpp)",
                       "schemas are abstracted in the model to (the sequence of base sets as origin tokens with their alias numbers, inherited terms, user-added terms); in the unlabelled presets equation tables only between two base pictograms and text edits only where no constituent reaches an operation along two paths",
                       "labelled presets (every base set carries a unique term text): copies arriving twice are merged, tables may name base sets of operation results (first or last), and the origin of every base set of every source and of every table entry is compared with the model; there the texts decide what DeleteDuplicates merges, so the synthesis can change without any change of a parent's formal content - Fresh and the implementation-only freshness comparison are restricted to unlabelled schemas, statuses are still compared with the model",
                       "a parent re-connected to another source with the same formal content leaves its children done (the statement speaks of changes that alter the formal content); counted, not reported",
                       "the layout grid is modelled exactly (ClosestFreePos never moves left, ChildPosFor rounds half up); LoadPosition is generated only onto free cells (its precondition as a loader primitive)"]
    ctx.constants = {}
    # thorough: one more call for the presets whose state space stays tractable (chain: 3.4 M histories); the others keep the
    # quick bound (one more call is > 8 M histories each, beyond what TLC holds in 16 GB) and are deepened by the recorded traces
    deep = ("chain", "empty", "grid")
    for pr in ("chain", "diamond", "synt", "stale", "lchain", "ldiamond", "empty", "grid"):
        cfg = "Gen_OSS_%s_%s.cfg" % ("t" if (not ctx.quick and pr in deep) else "q", pr)
        ctx.constants[cfg] = open(os.path.join(vcore.TLA, cfg)).read().split("SPECIFICATION")[0].split()
        ctx.replay("Gen_OSS.tla", cfg, h, [], tag=cfg[:-4], timeout=3400, xss="64m", xmx="16g")
    ctx.exhaustive = True
    ntr = 40 if ctx.quick else 400
    trace_stage(ctx, h, ["--record", str(ntr), "--steps", "40"], "Trace_OSS.tla", "Trace_OSS.cfg", n_traces=ntr)


MODEL_RULE = ("A: every history of <= MaxLen calls of AddBasicElement / SetBasicText (incl. same-size replacements with other keys) / "
              "SetStructureData / ResetDataFor / SetExpressionFor / Erase / Emplace / Calculate / RecalculateAll from a start model "
              "(X1 = {1,2}, D1 := X1, D2 := D1; 'struct' preset adds S1 : B(X1*X1) with data and projections of it; 'late' preset starts with "
              "D1 := X2 while the base set X2 does not exist and inserts / erases base sets during the history; 'lates' preset adds to that a structure "
              "S1 : B(X2) created before or after X2, given data, with X2 erased and created again; 'func' preset has a term-function "
              "F1 whose body is edited while terms calling it directly and through another term are calculated), generated by TLC from "
              "Model.tla with the predicted content and Fresh (what recalculating everything would show); replayed on a real RSModel. "
              "non-trivial = history of >= 2 calls. ")


def model_stage(ctx, props, presets=("", "s", "l", "ls", "f")):
    b = vcore.build()
    h = hbin(b, "h_model")
    for pr in presets:
        cfg = "Gen_Model_%s%s.cfg" % ("q" if ctx.quick else "t", pr)
        ctx.constants[cfg] = open(os.path.join(vcore.TLA, cfg)).read().split("SPECIFICATION")[0].split()
        ctx.replay("Gen_Model.tla", cfg, h, ["--props", ",".join(props)], tag=cfg[:-4], timeout=3400, xss="64m", xmx="12g")


def plan_C11(ctx):
    ctx.rule = MODEL_RULE
    ctx.constants = {}
    ctx.assumptions = ["calculated values and 'was calculated' flags are caches and are not part of the specification state: any constituent that shows a calculated value must show Fresh's value (a mutator may reset more than necessary)",
                       "the second oracle of the statement (RecalculateAll on a reloaded copy) is used only when all base sets carry keys 1..n (known finding K3 renumbers other keys on reload)"]
    model_stage(ctx, ["C11"])
    ctx.exhaustive = True
    ctx.rule += ("B: random histories of 40 calls (schema edits with mostly well-typed definitions, interpretation changes, structure data, "
                 "Calculate / RecalculateAll) recorded from a real RSModel and validated call by call by Trace_Model: every shown calculated "
                 "value equals Model.tla's Fresh. ")
    ntr = 30 if ctx.quick else 300
    trace_stage(ctx, hbin(vcore.build(), "h_model"), ["--record", str(ntr), "--steps", "40"], "Trace_Model.tla", "Trace_Model.cfg", n_traces=ntr)


def plan_C10(ctx):
    ctx.assumptions = ["known findings K2 (cyclic term references) and K3 (non-contiguous interpretation keys) are reported as KNOWN-FINDING"]
    # the 'ids' and 'names' presets at the thorough bound are 9 M histories each (an hour of replay apiece): for C10 they keep the
    # quick bound in both tiers; the thorough tier deepens 'kinds', 'texts', the model presets and the value encoding instead
    schema_plan(ctx, ["C10"], ["9@q", "7b", "7t", "8@q"])
    ctx.rule = SCHEMA_RULE + " Models: " + MODEL_RULE
    model_stage(ctx, ["C10"], presets=("", "s", "ls"))
    # values of any typification are stored in the document in the compact encoding: its round trip (Gen_C16's typifications x values)
    # is the value part of "save / load is lossless"
    ctx.rule += (" Values: every (typification, value) pair of Gen_C16 must survive the compact encoding the document stores values in "
                 "(SDCompact::FromSData / Unpack).")
    cfg = "Gen_C16_%s.cfg" % ("q" if ctx.quick else "t")
    ctx.replay("Gen_C16.tla", cfg, hbin(vcore.build(), "h_sdcompact"), ["--as", "C10"], tag="values-" + cfg[:-4], timeout=3400, xss="64m")


def save_trace(ctx, trace, prefix, tag=""):
    """keep the prefix of a rejected trace (up to and including the offending event) as the replay artefact"""
    d = os.path.join(vcore.BUILD, "replays")
    os.makedirs(d, exist_ok=True)
    dst = os.path.join(d, "%s-trace-%s%d.ndjson" % (ctx.pid, tag, ctx.seed))
    with open(trace) as f, open(dst, "w") as g:
        for i, line in enumerate(f):
            if prefix and i >= prefix:
                break
            g.write(line)
    return dst


PLANS = {
    "C14": plan_C14,
    "C20": plan_C20,
    "C16": plan_C16,
    "C15": plan_C15,
    "C17": plan_C17,
    "C04": plan_C04, "C18": plan_C18, "C11": plan_C11, "C12": plan_C12, "C13": plan_C13, "C19": plan_C19, "C07": plan_C07, "C08": plan_C08, "C09": plan_C09, "C10": plan_C10,
    "C01": plan_C01, "C02": plan_C02, "C03": plan_C03, "C05": plan_C05, "C06": plan_C06,
}

HARNESS_OF = {"C14": "h_graph", "C20": "h_strings", "C16": "h_sdcompact", "C15": "h_values", "C17": "h_refs", "C04": "h_input", "C18": "h_reuse", "C11": "h_model", "C19": "h_oss", "C12": "h_synth", "C13": "h_schema", "C07": "h_schema", "C08": "h_schema", "C09": "h_schema", "C10": "h_schema",
              "C01": "h_lang", "C02": "h_lang", "C03": "h_lang", "C05": "h_lang", "C06": "h_lang"}
TRACE_SPEC_OF = {"C14": ("Trace_C14.tla", "Trace_C14.cfg"), "C20": ("Trace_C20.tla", "Trace_C20.cfg"),
                 "C16": ("Trace_C16.tla", "Trace_C16.cfg"), "C15": ("Trace_C15.tla", "Trace_C15.cfg"),
                 "C17": ("Trace_C17.tla", "Trace_C17.cfg"), "C04": ("Trace_C04.tla", "Trace_C04.cfg"),
                 "C13": ("Trace_Schema.tla", "Trace_Ops.cfg"), "C12": ("Trace_Schema.tla", "Trace_Eq.cfg"), "C19": ("Trace_OSS.tla", "Trace_OSS.cfg"), "C11": ("Trace_Model.tla", "Trace_Model.cfg"), "C07": ("Trace_Schema.tla", "Trace_Schema.cfg"), "C09": ("Trace_Schema.tla", "Trace_Schema.cfg")}


def replay(pid, path):
    """Re-execute exactly one stored violation: a CASE (direction A) or a trace prefix (direction B)."""
    b = vcore.build()
    if path.endswith(".ndjson"):
        mod, cfg = TRACE_SPEC_OF[pid]
        ctx = vcore.Ctx(pid, "quick", 0)
        ok, det = ctx.validate_trace(path, mod, cfg)
        print("trace accepted" if ok else "trace REJECTED: %s\n%s" % (det.get("invariant"), det.get("tlc_tail", "")))
        return 0 if ok else 1
    doc = json.load(open(path))
    case = doc.get("case", doc)
    if isinstance(case, dict) and "trace" in case and os.path.exists(str(case["trace"])):
        return replay(pid, case["trace"])
    harness = doc.get("harness") or HARNESS_OF[pid]
    r = subprocess.run([hbin(b, harness), "--no-isolate", "--verbose"] + doc.get("harness_args", []),
                       input=json.dumps(case) + "\n", stdout=subprocess.PIPE, text=True)
    try:
        summ = json.loads(r.stdout)
    except Exception:
        print(r.stdout)
        return 2
    mine = [v for v in summ["violations"] if v["property"] == pid]
    for v in mine:
        print("VIOLATION property=%s replay=%s what=%s" % (pid, path, v["what"]))
        print(json.dumps(v, ensure_ascii=False, indent=1))
    if not mine:
        print("no violation reproduced for %s on this tree" % pid)
    return 1 if mine else 0
