"""Orchestration core: build, TLC runs, pipes into the C++ harnesses, trace validation, evidence, alarm rule.

Exit codes of a check:  0 property held on everything explored (KNOWN-FINDING lines allowed)
                        1 at least one VIOLATION line printed
                        2 infrastructure / model failure (build broke, TLC crashed, spec-level theorem failed)
"""
import fcntl
import hashlib
import json
import os
import re
import shutil
import signal
import subprocess
import sys
import time

VERIF = os.path.dirname(os.path.dirname(os.path.dirname(os.path.abspath(__file__))))
REPO = os.environ.get("VERIF_REPO", "/repo")
BUILD = os.path.join(VERIF, "build")
TLA = os.path.join(VERIF, "tla")
JAR = "/opt/veriftools/tla/tla2tools.jar:/opt/veriftools/tla/CommunityModules-deps.jar"
NCPU = os.cpu_count() or 4


class InfraError(Exception):
    pass


def log(*a):
    print(*a, file=sys.stderr, flush=True)


# ----------------------------------------------------------------------------- build
def build(san=False, targets=None):
    """(Re)build the harness + library from REPO's working tree. Incremental; serialised by a lock."""
    name = "asan" if san else "rel"
    if REPO != "/repo":
        name += "-" + hashlib.sha1(REPO.encode()).hexdigest()[:8]
    bdir = os.path.join(BUILD, name)
    os.makedirs(BUILD, exist_ok=True)
    with open(os.path.join(BUILD, ".lock-" + name), "w") as lk:
        fcntl.flock(lk, fcntl.LOCK_EX)
        t0 = time.time()
        if not os.path.exists(os.path.join(bdir, "build.ninja")):
            cmd = ["cmake", "-G", "Ninja", "-S", os.path.join(VERIF, "harness"), "-B", bdir,
                   "-DVERIF_REPO=" + REPO, "-DCMAKE_BUILD_TYPE=RelWithDebInfo"]
            if san:
                cmd += ["-DVERIF_SANITIZE=ON", "-DCMAKE_CXX_COMPILER=clang++-14"]
            r = subprocess.run(cmd, stdout=subprocess.PIPE, stderr=subprocess.STDOUT, text=True)
            if r.returncode != 0:
                raise InfraError("cmake configure failed:\n" + r.stdout[-4000:])
        cmd = ["cmake", "--build", bdir]
        if targets:
            cmd += ["--target"] + list(targets)
        r = subprocess.run(cmd, stdout=subprocess.PIPE, stderr=subprocess.STDOUT, text=True)
        if r.returncode != 0:
            raise InfraError("build failed:\n" + r.stdout[-6000:])
        log("[build %s] %.1fs" % (name, time.time() - t0))
    return bdir


# ----------------------------------------------------------------------------- TLC
_STATES_RE = re.compile(r"^(\d+) states generated, (\d+) distinct states found, (\d+) states left on queue", re.M)
_SIM_RE = re.compile(r"The number of states generated: (\d+)")
_DEPTH_RE = re.compile(r"The depth of the complete state graph search is (\d+)")


def tlc_cmd(module, cfg, workers=None, xmx="6g", simulate=None, depth=None, seed=None, metadir=None,
            deadlock=True, coverage=False, extra=None, dfs_queue=False, xss="32m"):
    cmd = ["java", "-XX:+UseParallelGC", "-Xmx" + xmx, "-Xss" + xss]
    if dfs_queue:
        cmd.append("-Dtlc2.tool.queue.IStateQueue=StateDeque")
    cmd += ["-cp", JAR, "tlc2.TLC", "-workers", str(workers or NCPU), "-metadir", metadir,
            "-config", cfg, "-noGenerateSpecTE"]
    if deadlock:
        cmd.append("-deadlock")   # -deadlock DISABLES deadlock checking (bounded Next)
    if simulate is not None:
        cmd += ["-simulate", "num=%d" % simulate]
        if depth:
            cmd += ["-depth", str(depth)]
    if seed is not None:
        cmd += ["-seed", str(seed)]
    if coverage:
        cmd += ["-coverage", "1"]
    if extra:
        cmd += extra
    cmd.append(module)
    return cmd


def parse_tlc(text):
    st = {"generated": 0, "distinct": 0, "depth": 0}
    m = None
    for m in _STATES_RE.finditer(text):
        pass
    if m:
        st["generated"], st["distinct"] = int(m.group(1)), int(m.group(2))
    else:
        m = _SIM_RE.search(text)
        if m:
            st["generated"] = st["distinct"] = int(m.group(1))
    m = _DEPTH_RE.search(text)
    if m:
        st["depth"] = int(m.group(1))
    return st


class Ctx:
    """State of one check run (one property, one tier)."""

    def __init__(self, pid, tier, seed, level="model_checking"):
        self.pid, self.tier, self.seed, self.level = pid, tier, seed, level
        self.t0 = time.time()
        self.states = 0
        self.transitions = 0
        self.traces = 0
        self.evaluations = 0
        self.distinct = 0
        self.samples = []
        self.violations = []     # dicts {property, what, witness, detail}
        self.violation_total = 0
        self.drift_total = 0
        self.drift_kinds = {}
        self.stage_log = []
        self.constants = {}
        self.assumptions = []
        self.rule = ""
        self.exhaustive = None
        self.extra = {}
        self.work = os.path.join(BUILD, "work", "%s-%s-%d" % (pid, tier, os.getpid()))
        shutil.rmtree(self.work, ignore_errors=True)
        os.makedirs(self.work, exist_ok=True)
        os.environ["VERIF_TMP"] = self.work
        self.quick = tier == "quick"

    # ---- helpers
    def path(self, *a):
        return os.path.join(self.work, *a)

    def _meta(self, tag):
        d = self.path("meta-" + tag)
        shutil.rmtree(d, ignore_errors=True)
        return d

    def note(self, stage, **kw):
        kw["stage"] = stage
        self.stage_log.append(kw)
        log("[%s] %s" % (self.pid, json.dumps(kw, ensure_ascii=False)[:600]))

    # ---- M: model-internal checking
    def scaled(self, timeout):
        """Stage timeouts are infrastructure guards (a stage that exceeds one is an InfraError, never a verdict): generous, and
        scalable for slow or shared machines through VERIF_TIMEOUT_FACTOR."""
        f = float(os.environ.get("VERIF_TIMEOUT_FACTOR", "1"))
        return int(timeout * f * (1.0 if self.quick else 2.5))

    def model_check(self, module, cfg, tag=None, timeout=1500, workers=None, xmx="6g", simulate=None, depth=None,
                    env=None):
        timeout = self.scaled(timeout)
        tag = tag or os.path.splitext(os.path.basename(cfg))[0]
        cmd = tlc_cmd(os.path.join(TLA, module), os.path.join(TLA, cfg), workers=workers, xmx=xmx,
                      simulate=simulate, depth=depth, seed=self.seed if simulate else None,
                      metadir=self._meta(tag))
        t = time.time()
        e = dict(os.environ)
        if env:
            e.update(env)
        try:
            r = subprocess.run(cmd, cwd=TLA, stdout=subprocess.PIPE, stderr=subprocess.STDOUT, text=True,
                               timeout=timeout, env=e)
        except subprocess.TimeoutExpired:
            raise InfraError("TLC timeout in model check %s" % tag)
        st = parse_tlc(r.stdout)
        if r.returncode != 0:
            with open(self.path("tlc-%s.log" % tag), "w") as f:
                f.write(r.stdout)
            raise InfraError("model check %s failed (TLC exit %d): spec-level theorem violated or spec error\n%s"
                             % (tag, r.returncode, r.stdout[-3000:]))
        self.states += st["distinct"]
        self.transitions += st["generated"]
        self.note("M", tag=tag, distinct=st["distinct"], generated=st["generated"], depth=st["depth"],
                  wall=round(time.time() - t, 1))
        return st

    # ---- M (unbounded): an inductive invariant discharged by Apalache: Init => Inv, and Inv /\ Next => Inv'.
    # A counterexample is a broken specification theorem (infrastructure error, like a failing TLC model check); a timeout or a
    # missing tool is only noted - the bounded TLC check of the same invariant stands on its own.
    def inductive(self, module, init, ind_init, nxt, inv, tag=None, timeout=600):
        tag = tag or os.path.splitext(module)[0]
        import shutil as _sh
        if _sh.which("apalache-mc") is None:
            self.note("M-ind", tag=tag, result="apalache-mc not installed")
            return None
        res = {}
        for name, ini, length in (("base", init, 0), ("step", ind_init, 1)):
            out = self.path("apalache-%s-%s" % (tag, name))
            cmd = ["apalache-mc", "check", "--init=" + ini, "--next=" + nxt, "--inv=" + inv, "--length=%d" % length,
                   "--out-dir=" + out, os.path.join(TLA, module)]
            t = time.time()
            try:
                r = subprocess.run(cmd, cwd=self.work, stdout=subprocess.PIPE, stderr=subprocess.STDOUT, text=True, timeout=timeout)
            except subprocess.TimeoutExpired:
                self.note("M-ind", tag=tag, part=name, result="timeout after %ds" % timeout)
                return None
            ok = "EXITCODE: OK" in r.stdout
            res[name] = ok
            self.note("M-ind", tag=tag, part=name, invariant=inv, ok=ok, wall=round(time.time() - t, 1))
            shutil.rmtree(out, ignore_errors=True)
            if not ok and "Checker has found an error" in r.stdout:
                raise InfraError("inductive invariant %s of %s fails in the %s case\n%s" % (inv, module, name, r.stdout[-2000:]))
        return res

    # ---- A: spec -> code replay.  TLC prints CASE lines, the harness replays them.
    def replay(self, module, cfg, harness_bin, harness_args=(), tag=None, timeout=1500, workers=None, xmx="8g",
               simulate=None, depth=None, env=None, tlc_extra=None, xss="32m"):
        timeout = self.scaled(timeout)
        tag = tag or os.path.splitext(os.path.basename(cfg))[0]
        out = self.path("sum-%s.json" % tag)
        cmd = tlc_cmd(os.path.join(TLA, module), os.path.join(TLA, cfg), workers=workers, xmx=xmx,
                      simulate=simulate, depth=depth, seed=self.seed if simulate else None,
                      metadir=self._meta(tag), extra=tlc_extra, xss=xss)
        e = dict(os.environ)
        if env:
            e.update(env)
        t = time.time()
        tlclog = self.path("tlc-%s.log" % tag)
        hcmd = [harness_bin] + list(harness_args) + ["--out", out, "--tlclog", tlclog]
        p1 = subprocess.Popen(cmd, cwd=TLA, stdout=subprocess.PIPE, stderr=subprocess.STDOUT, env=e,
                              preexec_fn=os.setsid)
        p2 = subprocess.Popen(hcmd, stdin=p1.stdout, stdout=subprocess.PIPE, stderr=subprocess.PIPE, env=e,
                              preexec_fn=os.setsid)
        p1.stdout.close()
        try:
            hout, herr = p2.communicate(timeout=timeout)
            p1.wait(timeout=60)
        except subprocess.TimeoutExpired:
            for p in (p1, p2):
                try:
                    os.killpg(p.pid, signal.SIGKILL)
                except Exception:
                    pass
            raise InfraError("timeout in replay stage %s" % tag)
        tl = open(tlclog, errors="replace").read() if os.path.exists(tlclog) else ""
        st = parse_tlc(tl)
        if p1.returncode != 0:
            raise InfraError("generator TLC %s exit %d\n%s" % (tag, p1.returncode, tl[-3000:]))
        if p2.returncode != 0 or not os.path.exists(out):
            raise InfraError("harness %s exit %s\n%s" % (os.path.basename(harness_bin), p2.returncode,
                                                         herr.decode(errors="replace")[-3000:]))
        summ = json.load(open(out))
        self.states += st["distinct"]
        self.transitions += st["generated"]
        self.absorb(summ, tag, behaviours=True)
        self.note("A", tag=tag, tlc_distinct=st["distinct"], cases=summ["cases"], checks=summ["checks"],
                  violations=summ["violations_total"], drift=summ["drift_total"],
                  distinct_nontrivial=summ["distinct_nontrivial"], wall=round(time.time() - t, 1),
                  counters=summ.get("counters", {}))
        if summ["cases"] == 0:
            raise InfraError("replay stage %s produced no cases (vacuous)\n%s" % (tag, tl[-2000:]))
        return summ

    # ---- TLC-generated cases written to a file (input of recorders)
    def generate(self, module, cfg, out_path, tag=None, timeout=1500, xmx="8g", xss="64m", every=1):
        timeout = self.scaled(timeout)
        tag = tag or "gen-" + os.path.splitext(os.path.basename(cfg))[0]
        cmd = tlc_cmd(os.path.join(TLA, module), os.path.join(TLA, cfg), xmx=xmx, metadir=self._meta(tag), xss=xss)
        t = time.time()
        try:
            r = subprocess.run(cmd, cwd=TLA, stdout=subprocess.PIPE, stderr=subprocess.STDOUT, text=True, timeout=timeout)
        except subprocess.TimeoutExpired:
            raise InfraError("TLC timeout generating %s" % tag)
        if r.returncode != 0:
            raise InfraError("generator %s exit %d\n%s" % (tag, r.returncode, r.stdout[-2000:]))
        n = 0
        with open(out_path, "w") as f:
            for i, line in enumerate(l for l in r.stdout.splitlines() if l.startswith('<<"CASE"')):
                if i % every == 0:
                    f.write(line + "\n")
                    n += 1
        st = parse_tlc(r.stdout)
        self.states += st["distinct"]
        self.transitions += st["generated"]
        self.note("G", tag=tag, distinct=st["distinct"], kept=n, wall=round(time.time() - t, 1))
        return n

    # ---- direct harness run (recorders, fuzz-style drivers fed by files)
    def run_harness(self, harness_bin, harness_args=(), tag="run", timeout=1500, stdin_path=None, env=None):
        timeout = self.scaled(timeout)
        out = self.path("sum-%s.json" % tag)
        e = dict(os.environ)
        if env:
            e.update(env)
        t = time.time()
        fin = open(stdin_path, "rb") if stdin_path else subprocess.DEVNULL
        try:
            r = subprocess.run([harness_bin] + list(harness_args) + ["--out", out], stdin=fin,
                               stdout=subprocess.PIPE, stderr=subprocess.PIPE, timeout=timeout, env=e)
        except subprocess.TimeoutExpired:
            raise InfraError("timeout in harness stage %s" % tag)
        if r.returncode != 0 or not os.path.exists(out):
            raise InfraError("harness %s exit %s\n%s" % (os.path.basename(harness_bin), r.returncode,
                                                         r.stderr.decode(errors="replace")[-3000:]))
        summ = json.load(open(out))
        self.note("H", tag=tag, cases=summ["cases"], checks=summ["checks"], violations=summ["violations_total"],
                  wall=round(time.time() - t, 1), counters=summ.get("counters", {}))
        return summ

    def absorb(self, summ, tag, behaviours=False):
        self.evaluations += summ["cases"]
        self.distinct += summ["distinct_nontrivial"]
        if behaviours:
            self.traces += summ["cases"]
        self.violation_total += summ["violations_total"]
        self.drift_total += summ["drift_total"]
        for k, v in summ.get("drift_kinds", {}).items():
            self.drift_kinds[k] = self.drift_kinds.get(k, 0) + v
        for v in summ["violations"]:
            v["stage"] = tag
            self.violations.append(v)
        # a kind that was counted but has no stored witness must not get lost (the harness keeps the first witness of every
        # kind; this is the belt to those braces)
        have = {v["property"] + "|" + v["what"] for v in summ["violations"]}
        for kind, n in summ.get("violation_kinds", {}).items():
            if n > 0 and kind not in have:
                prop, what = kind.split("|", 1)
                self.violations.append({"property": prop, "what": what, "stage": tag,
                                        "witness": {"note": "witness not stored by the harness", "count": n}, "detail": None})
        for s in summ["samples"]:
            if len(self.samples) < 6:
                self.samples.append(s)

    # ---- B: code -> spec trace validation
    def validate_trace(self, trace_path, module, cfg, tag=None, timeout=1500, n_events=None, n_traces=1, xmx="4g"):
        timeout = self.scaled(timeout)
        """Runs TLC on a Trace*.tla spec over a recorded ndjson trace.
        Accepted  <=> TLC exit 0 (POSTCONDITION TraceAccepted held, all invariants held).
        Returns (accepted, detail)."""
        tag = tag or os.path.splitext(os.path.basename(cfg))[0]

        def once(k):
            cmd = tlc_cmd(os.path.join(TLA, module), os.path.join(TLA, cfg), workers=1, xmx=xmx,
                          metadir=self._meta(tag + str(k)))
            e = dict(os.environ)
            e["TRACE"] = trace_path
            try:
                r = subprocess.run(cmd, cwd=TLA, stdout=subprocess.PIPE, stderr=subprocess.STDOUT, text=True,
                                   timeout=timeout, env=e)
            except subprocess.TimeoutExpired:
                raise InfraError("TLC timeout validating trace %s" % tag)
            return r

        t = time.time()
        r = once(0)
        st = parse_tlc(r.stdout)
        ok = r.returncode == 0
        detail = {}
        if not ok:
            if r.returncode not in (12, 13):   # 12 = safety violation (invariant or postcondition); others = infra
                if "TraceAccepted" not in r.stdout and "Invariant" not in r.stdout:
                    with open(self.path("tlc-%s.log" % tag), "w") as f:
                        f.write(r.stdout)
                    raise InfraError("trace validation %s: TLC exit %d\n%s" % (tag, r.returncode, r.stdout[-3000:]))
            r2 = once(1)   # report a rejection only if it repeats
            if r2.returncode == 0:
                raise InfraError("trace validation %s flaky: rejected then accepted" % tag)
            m = re.search(r"Invariant (\w+) is violated", r.stdout)
            detail["invariant"] = m.group(1) if m else None
            m = re.search(r"UNMATCHED (\d+)", r.stdout)
            detail["prefix"] = st["depth"]
            detail["tlc_tail"] = r.stdout[-2500:]
        self.states += st["distinct"]
        self.transitions += st["generated"]
        if ok:
            self.traces += n_traces
        self.note("B", tag=tag, accepted=ok, distinct=st["distinct"], depth=st["depth"], events=n_events,
                  traces=n_traces, wall=round(time.time() - t, 1))
        return ok, detail

    def add_violation(self, prop, what, witness, detail=None, stage=""):
        self.violation_total += 1
        self.violations.append({"property": prop, "what": what, "witness": witness, "detail": detail, "stage": stage})

    # ---- the alarm rule + evidence
    def finish(self):
        kf = load_known_findings()
        os.makedirs(os.path.join(BUILD, "replays"), exist_ok=True)
        known_hit, unknown = {}, []
        for v in self.violations:
            if v["property"] != self.pid:
                continue   # a harness shared by several properties reports only its own property here
            k = match_known(kf, v)
            if k:
                known_hit.setdefault(k["id"], [k, 0])[1] += 1
            else:
                unknown.append(v)
        # violations beyond the stored ones: counted per kind by the harness; all kinds have >= 1 stored witness
        lines = []
        for kid, (k, n) in sorted(known_hit.items()):
            lines.append("KNOWN-FINDING: property=%s %s [%s] (%d witnesses this run)" % (self.pid, k["what_fails"], kid, n))
        seen = set()
        nrep = 0
        per_what = {}
        for v in unknown:
            key = v["what"] + "|" + json.dumps(v["witness"], sort_keys=True, ensure_ascii=False)
            h = hashlib.sha1(key.encode()).hexdigest()[:12]
            if h in seen:
                continue
            seen.add(h)
            nrep += 1
            per_what[v["what"]] = per_what.get(v["what"], 0) + 1
            if nrep > 20 or per_what[v["what"]] > 3:
                continue
            path = os.path.join(BUILD, "replays", "%s-%s.json" % (self.pid, h))
            with open(path, "w") as f:
                json.dump({"property": self.pid, "what": v["what"], "stage": v.get("stage"), "case": v["witness"],
                           "detail": v.get("detail")}, f, ensure_ascii=False, indent=1)
            lines.append("VIOLATION property=%s replay=%s what=%s" % (self.pid, path, v["what"]))
        for ln in lines:
            print(ln, flush=True)
        for k, n in sorted(self.drift_kinds.items()):
            log("SPEC-DRIFT property=%s %s x%d" % (self.pid, k, n))
        cov = {
            "states": self.states, "transitions": self.transitions,
            "traces_validated_against_impl": self.traces,
            "samples": self.samples[:6] or [{"note": "no case sampled"}],
            "evaluations": self.evaluations, "distinct_nontrivial": self.distinct, "rule": self.rule,
            "spec_drift": self.drift_total, "spec_drift_kinds": self.drift_kinds,
            "known_findings": {kid: n for kid, (k, n) in known_hit.items()},
            "constants": self.constants, "stages": self.stage_log,
            "repo_head": git_head(REPO),
        }
        if self.exhaustive is not None:
            cov["exhaustive"] = self.exhaustive
        cov.update(self.extra)
        ev = {"property_id": self.pid, "tier": self.tier, "seed": self.seed, "level": self.level, "coverage": cov,
              "assumptions": self.assumptions, "wall_s": round(time.time() - self.t0, 2),
              "violations": len(seen)}
        evdir = os.environ.get("VERIF_EVIDENCE_DIR", os.path.join(VERIF, "evidence"))
        os.makedirs(evdir, exist_ok=True)
        with open(os.path.join(evdir, self.pid + ".json"), "w") as f:
            json.dump(ev, f, ensure_ascii=False, indent=1)
        shutil.rmtree(self.work, ignore_errors=True)
        return 1 if unknown else 0


def git_head(repo):
    try:
        h = subprocess.run(["git", "-C", repo, "rev-parse", "--short", "HEAD"], stdout=subprocess.PIPE, text=True).stdout.strip()
        d = subprocess.run(["git", "-C", repo, "status", "--porcelain", "--untracked-files=no"], stdout=subprocess.PIPE, text=True).stdout.strip()
        return h + ("+dirty" if d else "")
    except Exception:
        return "?"


# ----------------------------------------------------------------------------- known findings
def load_known_findings():
    p = os.path.join(VERIF, "known_findings.json")
    if not os.path.exists(p):
        return []
    return [k for k in json.load(open(p))["findings"] if k.get("status") == "open"]


def match_known(kf, v):
    """A known finding is identified by property + failing comparison (`what`, regex) + a regex over the
    canonical JSON of the witness (the specific input / history).  Nothing is ever added at run time."""
    w = json.dumps(v["witness"], sort_keys=True, ensure_ascii=False)
    for k in kf:
        if k["property"] != v["property"]:
            continue
        if not re.fullmatch(k["what"], v["what"]):
            continue
        if k.get("witness_regex") and not re.search(k["witness_regex"], w):
            continue
        return k
    return None
