#!/usr/bin/env python3
"""Regenerates MANIFEST.json from the table below (keeps it valid and uniform). Run: python3 bin/lib/manifest_gen.py"""
import json
import os

VERIF = os.path.dirname(os.path.dirname(os.path.dirname(os.path.abspath(__file__))))

CLAIMED = {
    "C14": dict(
        technique="TLA+ spec CGraph.tla; TLC model checking of graph laws; TLC-enumerated histories replayed on ccl::graph::CGraph (all queries); recorded traces validated by Trace_C14.tla",
        text="The abstract digraph and every public query are specified in CGraph.tla. TLC proves the spec-level laws on all 567 graphs over 3 ids, enumerates every mutator history inside the bound (exhaustive: <=3 calls over 3 ids and <=2 over 4 ids in quick; <=4/3 in thorough) with the predicted answer of every query, and the harness replays each on the real object comparing all public const methods. Random 150-500 step histories recorded from the real object (tombstones, re-insertion, UpdatableGraph) are validated event by event against the spec. Exhaustive inside the bound, sampled beyond it; not a proof for unbounded histories.",
        note="Trusted: TLC, the Json/IOUtils community modules, h_graph.cpp's projection of the public API. Orders (TopologicalOrder, Sort) are checked by the property (permutation, edge-respecting when acyclic, Sort is a subsequence), not against one particular order.",
        ref="5/C14"),
    "C20": dict(
        technique="TLA+ spec Strings.tla; TLC model checking of interval-algebra and string laws; exhaustive TLC-enumerated strings/ranges replayed on ccl/Strings.hpp; recorded calls validated by Trace_C20.tla",
        text="Strings.tla defines code-point iteration, Substr, SizeInCodePoints, SplitBySymbol, TrimWhitespace, IsInteger and every StrRange relation, Intersect and Merge by their end-point / point-set definitions. TLC checks the dualities, symmetry, exclusivity of the 13 Allen relations, intersection and minimal-hull laws on all 784 range pairs of the window and split/trim/substr laws on all short strings; then enumerates exhaustively all strings of <=4 (thorough 5) code points over a 9-symbol alphabet covering 1-4 byte encodings with every in/out-of-bounds range, and all lists of <=3 ranges, and the harness compares every function's result. Random long strings and wide ranges recorded from the real code are checked against the same operators by TLC.",
        note="Trusted: TLC, Json module, the harness's own UTF-8 encoder. Preconditions of the header (well-formed UTF-8, start<=finish) delimit the space. Overlaps/Contains(range)/SharesBorder with an empty operand are drift-only (statement does not fix that reading).",
        ref="5/C20"),
}

REASON_PENDING = "check not built yet in this round (specification in progress; see DESIGN.md section 7) - not claimed rather than claimed with an unfinished check"


def main():
    props = [json.loads(l) for l in open(os.path.join(VERIF, "properties.jsonl"))]
    checks = []
    na = []
    for p in props:
        pid = p["id"]
        c = CLAIMED.get(pid)
        if not c:
            na.append({"property_id": pid, "reason": REASON_PENDING})
            continue
        checks.append({
            "property_id": pid,
            "quick_cmd": "bin/check %s --tier quick" % pid,
            "thorough_cmd": "bin/check %s --tier thorough" % pid,
            "evidence_file": "evidence/%s.json" % pid,
            "replay_cmd_template": "bin/check %s --replay {path}" % pid,
            "engine": "tlc+harness",
            "level_claimed": {"category": c.get("category", "model_checking"), "text": c["text"], "design_ref": c["ref"]},
            "level_note": c["note"],
            "technique": c["technique"],
        })
    m = {
        "version": 1,
        "setup_cmd": "bin/setup",
        "hooks": {
            "guard": "CCL_VERIF",
            "enable": "harness/CMakeLists.txt compiles /repo/ccl/** in place with -DCCL_VERIF=1 (build/rel: g++ -O2; build/asan: clang++-14 ASan+UBSan)",
            "baseline_off_cmd": "bin/baseline_off",
            "source_commits": ["77a2528"],
            "add_only": True,
        },
        "engines": [
            {"name": "tlc+harness", "path": "bin/check", "serves_properties": sorted(CLAIMED),
             "kind_free_text": "TLA+ specifications (tla/*.tla) checked by TLC; TLC-generated behaviours replayed into C++ harnesses (harness/h_*.cpp) built from /repo's working tree; traces recorded from the real objects validated by Trace_*.tla"}
        ],
        "checks": checks,
        "not_applicable": na,
        "notes": "All checks: exit 0 held / 1 VIOLATION / 2 infrastructure error. known_findings.json lists genuine defects (open -> KNOWN-FINDING line; fixed -> suppresses nothing).",
    }
    with open(os.path.join(VERIF, "MANIFEST.json"), "w") as f:
        json.dump(m, f, indent=1, ensure_ascii=False)
        f.write("\n")


if __name__ == "__main__":
    main()
