// C16: ccl::object::SDCompact against tla/SDCompact.tla (cases from Gen_C16); run isolated, also under ASan+UBSan.
//   kind "rt"  : (type, value, Pack(value,type))  -> FromSData(...).data must equal the table, Unpack must give back the value
//   kind "mut" / "tab" : arbitrary table x typifications -> Unpack must return, and return nothing or a compatible value
//   --record N : random larger values / ragged tables, logged for Trace_C16
#include "rsconv.hpp"
#include "ccl/rslang/SDataCompact.h"

#include <random>

using vh::json;
using namespace ccl;
using object::SDCompact;
using object::StructuredData;

static SDCompact::Data Table(const json& t) {
  SDCompact::Data d; for (auto& row : t) { d.emplace_back(); for (auto& c : row) d.back().push_back(c.get<int32_t>()); }
  return d;
}
static json TableJ(const SDCompact::Data& d) { json t = json::array(); for (auto& row : d) t.push_back(row); return t; }

static void Handle(const json& c, vh::Report& r) {
  const std::string kind = c["kind"];
  if (kind == "rt") {
    const auto type = rsconv::TypeOf(c["type"][0]);
    const auto value = rsconv::ValueOf(c["value"][0]);
    ++r.checks;
    if (!rsconv::CompatDeep(value, type)) { r.Violation("C16", "harness.value-incompatible", c); return; }
    const auto packed = SDCompact::FromSData(value, type);
    if (TableJ(packed.data) != c["table"]) r.Drift("C16", "FromSData table differs from model Pack", c, { {"got", TableJ(packed.data)} });
    const auto back = SDCompact::Unpack(packed.data, type);
    if (!back.has_value()) r.Violation("C16", "roundtrip.none", c);
    else if (back.value() != value || !rsconv::SameValue(rsconv::ValueToJson(back.value()), c["value"][0]))
      r.Violation("C16", "roundtrip.value", c, { {"got", rsconv::ValueToJson(back.value())} });
    const auto back2 = packed.Unpack(type);
    if (!back2.has_value() || back2.value() != value) r.Violation("C16", "roundtrip.member", c);
    if (c["table"].size() > 1 || c["table"][0].size() > 1) r.NonTrivial(c["type"].dump() + c["value"].dump());
    if ((r.cases % 997) == 1) r.Sample(c);
    return;
  }
  const auto table = Table(c["table"]);
  for (size_t i = 0; i < c["type"].size(); ++i) {
    const auto type = rsconv::TypeOf(c["type"][i]);
    ++r.checks;
    const auto got = SDCompact::Unpack(table, type);    // must return (faults are caught by the isolating driver)
    if (got.has_value() && !rsconv::CompatDeep(got.value(), type))
      r.Violation("C16", "Unpack.incompatible", { {"kind", kind}, {"type", json::array({ c["type"][i] })}, {"table", c["table"]}, {"pred", json::array({ c["pred"][i] })} },
                  { {"got", rsconv::ValueToJson(got.value())} });
    const auto& p = c["pred"][i];
    const bool same = p["ok"].get<bool>() == got.has_value() &&
                      (!got.has_value() || rsconv::SameValue(rsconv::ValueToJson(got.value()), p["v"][0]));
    if (!same) r.Drift("C16", "Unpack differs from model decoder", { {"type", c["type"][i]}, {"table", c["table"]} },
                       { {"pred", p}, {"got", got.has_value() ? rsconv::ValueToJson(got.value()) : json()} });
    if (got.has_value()) r.Count("decoded");
  }
  if (c["table"].size() >= 2) r.NonTrivial(c["table"].dump() + (kind == "mut" ? c["type"].dump() : ""));
  if ((r.cases % 9973) == 2) r.Sample(c);
}

// ------------------------------------------------------------------ recording (direction B)
static json RandType(std::mt19937& g, int depth) {
  int k = static_cast<int>(g() % (depth <= 0 ? 1 : 4));
  if (k == 0) return { {"k", "base"}, {"id", "X1"}, {"c", json::array()} };
  if (k <= 2) return { {"k", "bool"}, {"id", ""}, {"c", json::array({ RandType(g, depth - 1) })} };
  json c = json::array(); int n = 2 + static_cast<int>(g() % 2); for (int i = 0; i < n; ++i) c.push_back(RandType(g, depth - 1));
  return { {"k", "tuple"}, {"id", ""}, {"c", c} };
}
static json RandValue(std::mt19937& g, const json& t, int width) {
  const std::string k = t["k"];
  if (k == "base") return static_cast<int>(g() % 5) + 1;
  if (k == "tuple") { json a = json::array(); for (auto& c : t["c"]) a.push_back(RandValue(g, c, width)); return json{ {"t", a} }; }
  json a = json::array(); int n = static_cast<int>(g() % (width + 1));
  for (int i = 0; i < n; ++i) a.push_back(RandValue(g, t["c"][0], std::max(1, width - 1)));
  return rsconv::Canon(json{ {"s", a} });
}
static int Record(const vh::Args& args) {
  const long n = args.num("record", 500);
  std::mt19937 g(static_cast<unsigned>(args.num("seed", 1)));
  std::ofstream out(args.get("trace"));
  vh::Report rep;
  for (long i = 0; i < n; ++i) {
    json t = RandType(g, 4);
    const auto type = rsconv::TypeOf(t);
    json ev;
    if (i % 2 == 0) {
      json v = RandValue(g, t, 3);
      const auto value = rsconv::ValueOf(v);
      const auto packed = SDCompact::FromSData(value, type);
      const auto back = SDCompact::Unpack(packed.data, type);
      ev = { {"e", "Pack"}, {"type", t}, {"value", rsconv::ValueToJson(value)}, {"table", TableJ(packed.data)},
             {"back", back.has_value() ? json::array({ rsconv::ValueToJson(back.value()) }) : json::array()} };
    } else {
      // a valid table with random damage, or a fully random ragged table
      SDCompact::Data d;
      if (g() % 3) { d = SDCompact::FromSData(rsconv::ValueOf(RandValue(g, t, 3)), type).data;
        int edits = 1 + static_cast<int>(g() % 2);
        for (int e = 0; e < edits && !d.empty(); ++e) { auto& row = d[g() % d.size()];
          static const int32_t pool[] = { -1, 0, 1, 2, 3, 7, SDCompact::unknownCount };
          switch (g() % 4) { case 0: if (!row.empty()) row[g() % row.size()] = pool[g() % 7]; break; case 1: row.push_back(pool[g() % 7]); break;
            case 2: if (!row.empty()) row.pop_back(); break; default: d.push_back(row); } } }
      else { int rows = 1 + static_cast<int>(g() % 4); for (int x = 0; x < rows; ++x) { d.emplace_back(); int cols = static_cast<int>(g() % 6);
        static const int32_t pool[] = { -1, 0, 1, 2, 3, SDCompact::unknownCount }; for (int y = 0; y < cols; ++y) d.back().push_back(pool[g() % 6]); } }
      const auto got = SDCompact::Unpack(d, type);
      ev = { {"e", "Unpack"}, {"type", t}, {"table", TableJ(d)}, {"ok", got.has_value()},
             {"compat", got.has_value() ? rsconv::CompatDeep(got.value(), type) : true},
             {"v", got.has_value() ? json::array({ rsconv::ValueToJson(got.value()) }) : json::array()} };
    }
    out << ev.dump() << std::endl; ++rep.cases;
  }
  rep.counters["events"] = n;
  rep.Write(args.get("out"));
  return 0;
}

int main(int argc, char** argv) {
  { vh::Args args(argc, argv); if (args.has("record")) return vh::RunRecorder(args.get("trace"), args.get("out"), [&]() { return Record(args); }); }
  vh::IsoOptions iso; iso.faultProperty = "C16"; iso.batch = 5000;
  return vh::Main(argc, argv, Handle, true, iso);
}
