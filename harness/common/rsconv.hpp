// Conversions between the wire encoding of the specifications (tla/RSTypes, tla/RSValues) and rslang objects.
#pragma once
#include "vh.hpp"
#include "ccl/rslang/Typification.h"
#include "ccl/rslang/StructuredData.h"

namespace rsconv {
using vh::json;
using ccl::rslang::Typification;
using ccl::object::StructuredData;
using ccl::object::Factory;

inline Typification TypeOf(const json& t) {
  const std::string k = t["k"];
  if (k == "base" || k == "rad") return Typification(t["id"].get<std::string>());
  if (k == "Z") return Typification::Integer();
  if (k == "any") return Typification::EmptySet().B().Base();
  if (k == "bool") return TypeOf(t["c"][0]).Bool();
  std::vector<Typification> f; for (auto& c : t["c"]) f.push_back(TypeOf(c));
  return Typification::Tuple(f);
}
inline json TypeToJson(const Typification& t) {
  switch (t.Structure()) {
  case ccl::rslang::StructureType::basic: {
    const auto& id = t.E().baseID;
    if (id == "Z") return { {"k", "Z"}, {"id", ""}, {"c", json::array()} };
    if (id == "R0") return { {"k", "any"}, {"id", ""}, {"c", json::array()} };
    return { {"k", (id.size() > 1 && id[0] == 'R') ? "rad" : "base"}, {"id", id}, {"c", json::array()} };
  }
  case ccl::rslang::StructureType::collection: return { {"k", "bool"}, {"id", ""}, {"c", json::array({ TypeToJson(t.B().Base()) })} };
  default: { json c = json::array(); for (const auto& f : t.T()) c.push_back(TypeToJson(f)); return { {"k", "tuple"}, {"id", ""}, {"c", c} }; }
  }
}

// wire value -> StructuredData (sets may be listed in any order)
inline StructuredData ValueOf(const json& v) {
  if (v.is_number_integer()) return Factory::Val(v.get<int32_t>());
  if (v.contains("t")) { std::vector<StructuredData> c; for (auto& x : v["t"]) c.push_back(ValueOf(x)); return Factory::Tuple(c); }
  std::vector<StructuredData> c; for (auto& x : v["s"]) c.push_back(ValueOf(x));
  return Factory::Set(c);
}
// StructuredData -> wire value, sets in iteration order
inline json ValueToJson(const StructuredData& d) {
  if (d.IsElement()) return d.E().Value();
  if (d.IsTuple()) { json a = json::array(); for (ccl::rslang::Index i = 1; i <= d.T().Arity(); ++i) a.push_back(ValueToJson(d.T().Component(i))); return json{ {"t", a} }; }
  json a = json::array(); for (const auto& el : d.B()) a.push_back(ValueToJson(el)); return json{ {"s", a} };
}
// canonical form for order-insensitive comparison of sets
inline json Canon(const json& v) {
  if (v.is_number_integer() || v.is_boolean()) return v;
  if (v.contains("t")) { json a = json::array(); for (auto& x : v["t"]) a.push_back(Canon(x)); return json{ {"t", a} }; }
  std::vector<std::string> keys; std::map<std::string, json> m;
  for (auto& x : v["s"]) { json c = Canon(x); m[c.dump()] = c; }
  json a = json::array(); for (auto& [k, c] : m) a.push_back(c);
  return json{ {"s", a} };
}
inline bool SameValue(const json& a, const json& b) { return Canon(a) == Canon(b); }

// the full structural check of RSValues.CompatV (the library's own CheckCompatible looks only at first elements)
inline bool CompatDeep(const StructuredData& d, const Typification& t) {
  if (t.IsAnyType()) return true;
  switch (t.Structure()) {
  case ccl::rslang::StructureType::basic: return d.IsElement();
  case ccl::rslang::StructureType::collection: {
    if (!d.IsCollection()) return false;
    for (const auto& el : d.B()) if (!CompatDeep(el, t.B().Base())) return false;
    return true;
  }
  default: {
    if (!d.IsTuple() || d.T().Arity() != t.T().Arity()) return false;
    for (ccl::rslang::Index i = 1; i <= d.T().Arity(); ++i) if (!CompatDeep(d.T().Component(i), t.T().Component(i))) return false;
    return true;
  }
  }
}
} // namespace rsconv
