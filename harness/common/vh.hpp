// Common plumbing of the conformance harnesses (spec -> code replay, code -> spec recording).
// Header-only on purpose: every h_*.cpp is one translation unit linked against libccl.
#pragma once

#include "nlohmann/json.hpp"

#include <sys/types.h>
#include <sys/wait.h>
#include <sys/mman.h>
#include <unistd.h>
#include <signal.h>

#include <cstdio>
#include <cstdlib>
#include <cstring>
#include <exception>
#include <fstream>
#include <functional>
#include <iostream>
#include <map>
#include <set>
#include <sstream>
#include <string>
#include <unordered_set>
#include <vector>

namespace vh {

using json = nlohmann::json;

// ---------------------------------------------------------------- arguments
struct Args {
  std::map<std::string, std::string> kv;
  std::vector<std::string> pos;
  Args(int argc, char** argv) {
    for (int i = 1; i < argc; ++i) {
      std::string a = argv[i];
      if (a.rfind("--", 0) == 0) {
        auto eq = a.find('=');
        if (eq != std::string::npos) kv[a.substr(2, eq - 2)] = a.substr(eq + 1);
        else if (i + 1 < argc && std::string(argv[i + 1]).rfind("--", 0) != 0) { kv[a.substr(2)] = argv[i + 1]; ++i; }
        else kv[a.substr(2)] = "1";
      } else pos.push_back(a);
    }
  }
  bool has(const std::string& k) const { return kv.count(k) > 0; }
  std::string get(const std::string& k, const std::string& d = "") const { auto it = kv.find(k); return it == kv.end() ? d : it->second; }
  long num(const std::string& k, long d) const { auto it = kv.find(k); return it == kv.end() ? d : std::atol(it->second.c_str()); }
};

// ---------------------------------------------------------------- case input
// Accepts (a) TLC output lines  <<"CASE", "<json string literal>">>  printed by PrintT(<<"CASE", ToJson(..)>>),
// (b) bare JSON objects, one per line (replay files, recorded traces).  Everything else is skipped.
inline bool ParseCaseLine(const std::string& line, json& out) {
  if (line.rfind("<<\"CASE\"", 0) == 0) {
    auto p = line.find("\"{");
    if (p == std::string::npos) p = line.find("\"[");
    auto e = line.rfind("\">>");
    if (p == std::string::npos || e == std::string::npos || e < p) return false;
    try {
      out = json::parse(json::parse(line.substr(p, e - p + 1)).get<std::string>());
      return true;
    } catch (const json::exception&) { return false; }
  }
  if (!line.empty() && line[0] == '{') {
    try { out = json::parse(line); return true; } catch (const json::exception&) { return false; }
  }
  return false;
}

// lines that are not cases (TLC's own progress / statistics) are copied here so the orchestrator can parse them
inline std::ofstream& OtherSink() { static std::ofstream f; return f; }
inline void Other(const std::string& line) { if (OtherSink().is_open()) OtherSink() << line << '\n'; }

// ---------------------------------------------------------------- report
struct Report {
  long cases = 0;        // cases / behaviours replayed
  long checks = 0;       // individual comparisons made
  long nViolations = 0;
  long nDrift = 0;
  std::unordered_set<uint64_t> distinct;      // hashes of the keys of distinct non-trivial cases
  std::vector<json> violations;               // first K, full detail
  std::map<std::string, long> violationKinds; // property|what -> count
  std::vector<json> drift;
  std::map<std::string, long> driftKinds;
  std::vector<json> samples;
  std::map<std::string, long> counters;       // free-form measured counts
  size_t keepViolations = 200;
  size_t keepSamples = 3;

  static uint64_t Hash(const std::string& s) { uint64_t h = 1469598103934665603ULL; for (unsigned char c : s) { h ^= c; h *= 1099511628211ULL; } return h; }
  void NonTrivial(const std::string& key) { if (distinct.size() < 20000000) distinct.insert(Hash(key)); }
  void Sample(const json& c) { if (samples.size() < keepSamples) samples.push_back(c); }
  void Count(const std::string& k, long n = 1) { counters[k] += n; }

  // A property-level disagreement.  `what` names the failing comparison, `witness` is the replayable case.
  // --as <id>: the same comparisons serve another property (e.g. the compact encoding is how a model document stores values:
  // its round trip is part of "save / load is lossless"); violations and drift are then reported under that property
  static std::string& Relabel() { static std::string s; return s; }
  void Violation(const std::string& propertyIn, const std::string& what, const json& witness, const json& detail = json()) {
    const std::string& property = Relabel().empty() ? propertyIn : Relabel();
    ++nViolations;
    auto& k = violationKinds[property + "|" + what];
    ++k;
    // at most 25 witnesses per kind and keepViolations in all, but the first witness of every kind is always kept
    if ((violations.size() < keepViolations && k <= 25) || k == 1) {
      violations.push_back({ {"property", property}, {"what", what}, {"witness", witness}, {"detail", detail} });
      ++storedPerKind[property + "|" + what];
    }
  }
  std::map<std::string, long> storedPerKind;
  void Drift(const std::string& property, const std::string& what, const json& witness, const json& detail = json()) {
    ++nDrift;
    auto& k = driftKinds[property + "|" + what];
    ++k;
    if (drift.size() < 50 && k <= 5) drift.push_back({ {"property", property}, {"what", what}, {"witness", witness}, {"detail", detail} });
  }

  json ToJson() const {
    json j;
    j["cases"] = cases; j["checks"] = checks; j["violations_total"] = nViolations; j["drift_total"] = nDrift;
    j["distinct_nontrivial"] = distinct.size();
    j["violations"] = violations; j["violation_kinds"] = violationKinds;
    j["drift"] = drift; j["drift_kinds"] = driftKinds; j["samples"] = samples; j["counters"] = counters;
    return j;
  }
  void Merge(const json& j) {
    cases += j.value("cases", 0L); checks += j.value("checks", 0L);
    nViolations += j.value("violations_total", 0L); nDrift += j.value("drift_total", 0L);
    for (auto& v : j["violations"]) {     // same rule across the reports of the batches: no kind may crowd out another
      auto& stored = storedPerKind[v["property"].get<std::string>() + "|" + v["what"].get<std::string>()];
      if ((violations.size() < keepViolations && stored < 25) || stored == 0) { violations.push_back(v); ++stored; }
    }
    for (auto& [k, v] : j["violation_kinds"].items()) violationKinds[k] += v.get<long>();
    for (auto& v : j["drift"]) if (drift.size() < 50) drift.push_back(v);
    for (auto& [k, v] : j["drift_kinds"].items()) driftKinds[k] += v.get<long>();
    for (auto& v : j["samples"]) if (samples.size() < keepSamples) samples.push_back(v);
    for (auto& [k, v] : j["counters"].items()) counters[k] += v.get<long>();
    if (j.contains("distinct_keys")) for (auto& k : j["distinct_keys"]) distinct.insert(k.get<uint64_t>());
  }
  void Write(const std::string& path) const {
    if (path.empty()) { std::cout << ToJson().dump() << std::endl; return; }
    std::ofstream f(path); f << ToJson().dump(1) << std::endl;
  }
};

// ---------------------------------------------------------------- plain (non isolated) driver
using Handler = std::function<void(const json& c, Report& r)>;

inline long& SampleEvery() { static long k = 1; return k; }
inline bool Sampled(const std::string& line) { return SampleEvery() <= 1 || Report::Hash(line) % static_cast<uint64_t>(SampleEvery()) == 0; }

inline int RunStream(std::istream& in, const Handler& h, Report& rep) {
  std::string line; json c;
  while (std::getline(in, line)) {
    if (line.rfind("<<\"CASE\"", 0) == 0 && !Sampled(line)) continue;
    if (!ParseCaseLine(line, c)) { Other(line); continue; }
    ++rep.cases;
    h(c, rep);
  }
  return 0;
}

// ---------------------------------------------------------------- isolated driver (fault attribution, DESIGN 2.6)
// Cases are processed in forked batches; a batch whose child dies (signal, sanitizer abort, escaped exception,
// watchdog) is re-run case by case so that the faulting input is identified and becomes a violation witness.
struct IsoOptions {
  size_t batch = 2000;
  unsigned watchdogSeconds = 90;      // per case; generous: under sanitizers on a loaded machine a legitimate case (five evaluations running into the iteration limit) took 12 s
  std::string faultProperty = "C04";
  std::function<std::string(const json&)> faultPropertyOf;  // optional per-case attribution
};

namespace detail {
inline std::string TmpPath(const char* tag) {
  static long ctr = 0;
  const char* dir = std::getenv("VERIF_TMP");
  std::ostringstream s; s << (dir ? dir : "/var/tmp") << "/vh-" << getpid() << "-" << tag << "-" << (++ctr);
  return s.str();
}
[[noreturn]] inline void TerminateHandler() {
  // an escaped exception: make it visible, then die with a recognisable status
  const char* msg = "vh: std::terminate (escaped exception)\n";
  if (!std::getenv("VERIF_VERBOSE")) _exit(86);
  if (auto e = std::current_exception()) {
    try { std::rethrow_exception(e); }
    catch (const std::exception& ex) { std::fprintf(stderr, "vh: escaped exception: %s\n", ex.what()); }
    catch (...) { std::fprintf(stderr, "vh: escaped non-std exception\n"); }
  }
  (void)!write(2, msg, std::strlen(msg));
  _exit(86);
}
// returns: 0 ok, otherwise description of the fault in `why`
inline bool RunChild(const std::vector<json>& cases, size_t from, size_t to, const Handler& h, unsigned wd, Report& into, std::string& why) {
  std::string path = TmpPath("rep");
  pid_t pid = fork();
  if (pid < 0) { why = "fork failed"; return false; }
  if (pid == 0) {
    std::set_terminate(TerminateHandler);
    Report r; r.keepSamples = into.keepSamples;
    for (size_t i = from; i < to; ++i) {
      alarm(wd);
      ++r.cases;
      h(cases[i], r);
    }
    alarm(0);
    json j = r.ToJson();
    j["distinct_keys"] = json::array();
    for (auto& k : r.distinct) j["distinct_keys"].push_back(k);
    std::ofstream f(path); f << j.dump(); f.close();
    _exit(0);
  }
  int st = 0;
  while (waitpid(pid, &st, 0) < 0 && errno == EINTR) {}
  if (WIFEXITED(st) && WEXITSTATUS(st) == 0) {
    std::ifstream f(path); json j;
    try { f >> j; into.Merge(j); } catch (...) { why = "child report unreadable"; std::remove(path.c_str()); return false; }
    std::remove(path.c_str());
    return true;
  }
  std::remove(path.c_str());
  std::ostringstream s;
  if (WIFSIGNALED(st)) {
    int sig = WTERMSIG(st);
    if (sig == SIGALRM) s << "hang (watchdog " << wd << "s)"; else s << "signal " << sig << " (" << strsignal(sig) << ")";
  } else if (WEXITSTATUS(st) == 86) s << "escaped exception / std::terminate";
  else s << "abnormal exit status " << WEXITSTATUS(st) << " (sanitizer report or abort)";
  why = s.str();
  return false;
}
} // namespace detail

namespace detail {
// Each child publishes the index of the case it is about to execute in a shared word, so that when it dies the
// faulting input is known at once (no bisection): the rest of the batch is simply re-run around it.
struct Running { pid_t pid; std::string path; std::vector<json> batch; size_t from; size_t to; volatile long* progress; };
inline volatile long* NewProgress() {
  void* p = mmap(nullptr, sizeof(long), PROT_READ | PROT_WRITE, MAP_SHARED | MAP_ANONYMOUS, -1, 0);
  auto* q = static_cast<volatile long*>(p); *q = -1; return q;
}
inline pid_t SpawnRange(const std::vector<json>& cases, size_t from, size_t to, const Handler& h, unsigned wd, size_t keepSamples,
                        const std::string& path, volatile long* progress) {
  pid_t pid = fork();
  if (pid == 0) {
    std::set_terminate(TerminateHandler);
    Report r; r.keepSamples = keepSamples;
    for (size_t i = from; i < to; ++i) { *progress = static_cast<long>(i); alarm(wd); ++r.cases; h(cases[i], r); }
    alarm(0);
    json j = r.ToJson();
    j["distinct_keys"] = json::array();
    for (auto& k : r.distinct) j["distinct_keys"].push_back(k);
    std::ofstream f(path); f << j.dump(); f.close();
    _exit(0);
  }
  return pid;
}
inline std::string DescribeStatus(int st, unsigned wd) {
  std::ostringstream s;
  if (WIFSIGNALED(st)) { int sig = WTERMSIG(st); if (sig == SIGALRM) s << "hang (watchdog " << wd << "s)"; else s << "signal " << sig << " (" << strsignal(sig) << ")"; }
  else if (WEXITSTATUS(st) == 86) s << "escaped exception / std::terminate";
  else s << "abnormal exit status " << WEXITSTATUS(st) << " (sanitizer report or abort)";
  return s.str();
}
} // namespace detail

// Batches run in up to `jobs` forked children at a time.  A child that dies names the faulting case through its
// progress word; that case becomes a violation witness and the cases around it are re-run.
inline int RunIsolated(std::istream& in, const Handler& h, Report& rep, const IsoOptions& opt = {}) {
  const size_t jobs = std::max<size_t>(1, static_cast<size_t>(std::atoi(std::getenv("VERIF_JOBS") ? std::getenv("VERIF_JOBS") : "12")));
  std::vector<detail::Running> running;
  auto spawn = [&](std::vector<json> batch, size_t from, size_t to) {
    detail::Running r; r.path = detail::TmpPath("rep"); r.batch = std::move(batch); r.from = from; r.to = to; r.progress = detail::NewProgress();
    r.pid = detail::SpawnRange(r.batch, from, to, h, opt.watchdogSeconds, rep.keepSamples, r.path, r.progress);
    running.push_back(std::move(r));
  };
  auto reapOne = [&]() {
    int st = 0; pid_t pid;
    while ((pid = waitpid(-1, &st, 0)) < 0 && errno == EINTR) {}
    for (size_t i = 0; i < running.size(); ++i) if (running[i].pid == pid) {
      detail::Running done = std::move(running[i]);
      running.erase(running.begin() + static_cast<long>(i));
      bool ok = WIFEXITED(st) && WEXITSTATUS(st) == 0;
      if (ok) { std::ifstream f(done.path); json j; try { f >> j; rep.Merge(j); } catch (...) { ok = false; } }
      std::remove(done.path.c_str());
      const long at = *done.progress;
      munmap(const_cast<long*>(done.progress), sizeof(long));
      if (!ok) {
        const size_t k = (at >= static_cast<long>(done.from) && at < static_cast<long>(done.to)) ? static_cast<size_t>(at) : done.from;
        ++rep.cases;
        const std::string prop = opt.faultPropertyOf ? opt.faultPropertyOf(done.batch[k]) : opt.faultProperty;
        rep.Violation(prop, "fault", done.batch[k], { {"fault", detail::DescribeStatus(st, opt.watchdogSeconds)} });
        if (std::getenv("VERIF_VERBOSE")) std::cerr << "FAULT " << detail::DescribeStatus(st, opt.watchdogSeconds) << " " << done.batch[k].dump().substr(0, 400) << std::endl;
        if (k > done.from) spawn(done.batch, done.from, k);          // the cases before it (their results died with the child)
        if (k + 1 < done.to) spawn(std::move(done.batch), k + 1, done.to);   // and the cases after it
      }
      return;
    }
  };
  std::vector<json> batch; batch.reserve(opt.batch);
  auto dispatch = [&]() {
    if (batch.empty()) return;
    while (running.size() >= jobs) reapOne();
    const size_t n = batch.size();
    spawn(std::move(batch), 0, n);
    batch.clear(); batch.reserve(opt.batch);
  };
  std::string line; json c;
  while (std::getline(in, line)) {
    if (line.rfind("<<\"CASE\"", 0) == 0 && !Sampled(line)) continue;
    if (!ParseCaseLine(line, c)) { Other(line); continue; }
    batch.push_back(std::move(c));
    if (batch.size() >= opt.batch) dispatch();
  }
  dispatch();
  while (!running.empty()) reapOne();
  return 0;
}

// ---------------------------------------------------------------- recorders (direction B) must survive faults too
// The recording loop runs in a child; if it dies, a {"e":"Fault"} event is appended to the trace so that the
// trace specification (which has no Fault action) rejects it, instead of the check failing as infrastructure.
inline int RunRecorder(const std::string& tracePath, const std::string& outPath, const std::function<int()>& body, unsigned watchdogSeconds = 900) {
  pid_t pid = fork();
  if (pid == 0) { std::set_terminate(detail::TerminateHandler); alarm(watchdogSeconds); _exit(body()); }
  int st = 0;
  while (waitpid(pid, &st, 0) < 0 && errno == EINTR) {}
  if (WIFEXITED(st) && WEXITSTATUS(st) == 0) return 0;
  std::ostringstream why;
  if (WIFSIGNALED(st)) why << "signal " << WTERMSIG(st) << " (" << strsignal(WTERMSIG(st)) << ")"; else why << "exit status " << WEXITSTATUS(st);
  long events = 0; { std::ifstream f(tracePath); std::string l; while (std::getline(f, l)) ++events; }
  { std::ofstream f(tracePath, std::ios::app); f << json{ {"e", "Fault"}, {"why", why.str()} }.dump() << "\n"; }
  Report rep; rep.cases = events; rep.counters["events"] = events + 1; rep.counters["faulted"] = 1;
  rep.Write(outPath);
  return 0;
}

// ---------------------------------------------------------------- small helpers
inline std::string Utf8(const std::vector<int>& cps) {
  std::string s;
  for (int cp : cps) {
    if (cp < 0x80) s += static_cast<char>(cp);
    else if (cp < 0x800) { s += static_cast<char>(0xC0 | (cp >> 6)); s += static_cast<char>(0x80 | (cp & 0x3F)); }
    else if (cp < 0x10000) { s += static_cast<char>(0xE0 | (cp >> 12)); s += static_cast<char>(0x80 | ((cp >> 6) & 0x3F)); s += static_cast<char>(0x80 | (cp & 0x3F)); }
    else { s += static_cast<char>(0xF0 | (cp >> 18)); s += static_cast<char>(0x80 | ((cp >> 12) & 0x3F)); s += static_cast<char>(0x80 | ((cp >> 6) & 0x3F)); s += static_cast<char>(0x80 | (cp & 0x3F)); }
  }
  return s;
}
inline std::vector<int> CodePoints(const std::string& s) {
  std::vector<int> r;
  for (size_t i = 0; i < s.size();) {
    unsigned char c = static_cast<unsigned char>(s[i]);
    int n = c < 0x80 ? 1 : (c >> 5) == 6 ? 2 : (c >> 4) == 14 ? 3 : (c >> 3) == 30 ? 4 : 1;
    int cp = n == 1 ? c : n == 2 ? (c & 0x1F) : n == 3 ? (c & 0x0F) : (c & 0x07);
    for (int k = 1; k < n && i + k < s.size(); ++k) cp = (cp << 6) | (static_cast<unsigned char>(s[i + k]) & 0x3F);
    r.push_back(cp); i += n;
  }
  return r;
}
inline std::vector<int> IntVec(const json& a) { std::vector<int> r; for (auto& x : a) r.push_back(x.get<int>()); return r; }
inline std::set<int> IntSet(const json& a) { std::set<int> r; for (auto& x : a) r.insert(x.get<int>()); return r; }

// standard main: stdin (or --in file) -> handler -> --out summary
inline int Main(int argc, char** argv, const Handler& h, bool isolated = false, IsoOptions iso = {}) {
  Args args(argc, argv);
  Report rep;
  rep.keepSamples = static_cast<size_t>(args.num("samples", 3));
  std::ifstream fin;
  std::istream* in = &std::cin;
  if (args.has("in")) { fin.open(args.get("in")); in = &fin; }
  if (args.has("tlclog")) OtherSink().open(args.get("tlclog"));
  if (args.has("sample")) SampleEvery() = args.num("sample", 1);
  if (args.has("as")) Report::Relabel() = args.get("as");
  if (args.has("batch")) iso.batch = static_cast<size_t>(args.num("batch", 2000));
  if (isolated && !args.has("no-isolate")) RunIsolated(*in, h, rep, iso); else RunStream(*in, h, rep);
  rep.Write(args.get("out"));
  if (OtherSink().is_open()) OtherSink().close();
  return 0;
}

} // namespace vh
