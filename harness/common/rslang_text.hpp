// Token spelling tables of the two concrete syntaxes (transcribed from the lexer specifications
// AsciiLexerImpl.l / MathLexerImpl.l) and assembly of token sequences produced by tla/RSSyntax.tla into text.
#pragma once
#include "vh.hpp"
#include "ccl/rslang/SyntaxTree.h"

namespace rstext {
using vh::json;

inline const std::map<std::string, std::string>& Table(bool math) {
  static const std::map<std::string, std::string> M = {
    {"PLUS", "+"}, {"MINUS", "-"}, {"MULTIPLY", "*"}, {"GREATER", ">"}, {"LESSER", "<"}, {"GREATER_OR_EQ", "≥"}, {"LESSER_OR_EQ", "≤"},
    {"EQUAL", "="}, {"NOTEQUAL", "≠"}, {"FORALL", "∀"}, {"EXISTS", "∃"}, {"NOT", "¬"}, {"AND", "&"}, {"OR", "∨"},
    {"IMPLICATION", "⇒"}, {"EQUIVALENT", "⇔"}, {"ITERATE", ":∈"}, {"IN", "∈"}, {"NOTIN", "∉"}, {"SUBSET_OR_EQ", "⊆"},
    {"SUBSET", "⊂"}, {"NOTSUBSET", "⊄"}, {"DECART", "×"}, {"UNION", "∪"}, {"INTERSECTION", "∩"}, {"SET_MINUS", "\\"},
    {"SYMMINUS", "∆"}, {"BOOLEAN", "ℬ"}, {"EMPTY", "∅"}, {"ASSIGN", ":="}, {"DEFINE", ":=="}, {"STRUCT", "::="} };
  static const std::map<std::string, std::string> A = {
    {"PLUS", "\\plus"}, {"MINUS", "\\minus"}, {"MULTIPLY", "\\multiply"}, {"GREATER", "\\gr"}, {"LESSER", "\\ls"}, {"GREATER_OR_EQ", "\\ge"}, {"LESSER_OR_EQ", "\\le"},
    {"EQUAL", "\\eq"}, {"NOTEQUAL", "\\noteq"}, {"FORALL", "\\A"}, {"EXISTS", "\\E"}, {"NOT", "\\neg"}, {"AND", "\\and"}, {"OR", "\\or"},
    {"IMPLICATION", "\\impl"}, {"EQUIVALENT", "\\equiv"}, {"ITERATE", "\\from"}, {"IN", "\\in"}, {"NOTIN", "\\notin"}, {"SUBSET_OR_EQ", "\\subseteq"},
    {"SUBSET", "\\subset"}, {"NOTSUBSET", "\\notsubset"}, {"DECART", "*"}, {"UNION", "\\union"}, {"INTERSECTION", "\\intersect"}, {"SET_MINUS", "\\setminus"},
    {"SYMMINUS", "\\symmdiff"}, {"BOOLEAN", "B"}, {"EMPTY", "{}"}, {"ASSIGN", "\\assign"}, {"DEFINE", "\\defexpr"}, {"STRUCT", "\\deftype"} };
  return math ? M : A;
}
// Greek letters are written symbolically in the specification (%alpha) and materialised here
// %gNN (two digits, 01..25) is the NN-th letter of the Greek block U+03B1..U+03C9 (final sigma included)
inline std::string Local(const std::string& name) {
  std::string out;
  for (size_t i = 0; i < name.size();) {
    if (name[i] == '%' && i + 3 < name.size() + 0 && name[i + 1] == 'g' && std::isdigit(static_cast<unsigned char>(name[i + 2])) && i + 3 < name.size() + 1 &&
        std::isdigit(static_cast<unsigned char>(name[i + 3]))) {
      out += vh::Utf8({ 0x3B0 + (name[i + 2] - '0') * 10 + (name[i + 3] - '0') }); i += 4;
    } else out += name[i++];
  }
  return out;
}
// the fixed transliteration of Greek letters in ASCII output (documented table)
inline std::string Translit(const std::string& name) {
  static const char* table = "abgdezhviklmnxoprsstqfcjw";
  std::string out;
  for (int cp : vh::CodePoints(name)) { if (cp >= 0x3B1 && cp <= 0x3C9) out += table[cp - 0x3B1]; else out += vh::Utf8({ cp }); }
  return out;
}
inline std::string Spell(const std::string& tok, bool math) {
  if (tok[0] == '$') return math ? Local(tok.substr(1)) : Translit(Local(tok.substr(1)));   // ASCII has no Greek letters
  if (tok[0] == '#') return tok.substr(1);
  static const std::map<std::string, std::string> Common = {
    {"CARD", "card"}, {"BOOL", "bool"}, {"DEBOOL", "debool"}, {"REDUCE", "red"}, {"DECLARATIVE", "D"}, {"RECURSIVE", "R"}, {"IMPERATIVE", "I"}, {"INTSET", "Z"} };
  if (auto it = Common.find(tok); it != Common.end()) return it->second;
  if (auto p = tok.find('@'); p != std::string::npos) {
    const std::string head = tok.substr(0, p);
    return (head == "BIGPR" ? "Pr" : head == "SMALLPR" ? "pr" : "Fi") + tok.substr(p + 1);
  }
  const auto& T = Table(math);
  if (auto it = T.find(tok); it != T.end()) return it->second;
  return tok;   // punctuation is spelled as itself
}
inline bool IdChar(unsigned char c) { return std::isalnum(c) || c == '_' || c >= 0x80; }

struct Text {
  std::string text;
  std::vector<int> start, finish;   // per token: [start, finish) in the unit of the syntax (code points for MATH, bytes for ASCII)
};
// spacing: 0 = tight (a separator only where two identifier characters would meet), 1 = one space between all tokens,
//          2 = tabs / double spaces, 3 = newline every few tokens (MATH only; advances lineBase)
inline Text Assemble(const json& toks, bool math, int spacing) {
  Text r; int unit = 0;
  auto add = [&](const std::string& s) { r.text += s; unit += math ? static_cast<int>(vh::CodePoints(s).size()) : static_cast<int>(s.size()); };
  for (size_t i = 0; i < toks.size(); ++i) {
    const std::string s = Spell(toks[i].get<std::string>(), math);
    if (i > 0) {
      const bool glue = IdChar(static_cast<unsigned char>(r.text.back())) && IdChar(static_cast<unsigned char>(s[0]));
      // "{" followed by "}" would lex as the ASCII empty set, ":" handling is inside tokens
      if (spacing == 0) { if (glue || (r.text.back() == '{' && s[0] == '}')) add(" "); }
      else if (spacing == 1) add(" ");
      else if (spacing == 2) add((i % 2) ? "\t" : "  ");
      else add((math && i % 3 == 0) ? "\n" : " ");
    }
    r.start.push_back(unit); add(s); r.finish.push_back(unit);
  }
  return r;
}

// ---------------------------------------------------------------- AST projection
inline std::string IdName(ccl::rslang::TokenID id) {
  using T = ccl::rslang::TokenID;
  switch (id) {
  case T::ID_LOCAL: return "LOCAL"; case T::ID_GLOBAL: case T::ID_FUNCTION: case T::ID_PREDICATE: return "GLOBAL"; case T::ID_RADICAL: return "RADICAL";
  case T::LIT_INTEGER: return "INT"; case T::LIT_INTSET: return "INTSET"; case T::LIT_EMPTYSET: return "EMPTY";
  case T::PLUS: return "PLUS"; case T::MINUS: return "MINUS"; case T::MULTIPLY: return "MULTIPLY";
  case T::GREATER: return "GREATER"; case T::LESSER: return "LESSER"; case T::GREATER_OR_EQ: return "GREATER_OR_EQ"; case T::LESSER_OR_EQ: return "LESSER_OR_EQ";
  case T::EQUAL: return "EQUAL"; case T::NOTEQUAL: return "NOTEQUAL"; case T::FORALL: return "FORALL"; case T::EXISTS: return "EXISTS"; case T::NOT: return "NOT";
  case T::EQUIVALENT: return "EQUIVALENT"; case T::IMPLICATION: return "IMPLICATION"; case T::OR: return "OR"; case T::AND: return "AND";
  case T::IN: return "IN"; case T::NOTIN: return "NOTIN"; case T::SUBSET: return "SUBSET"; case T::SUBSET_OR_EQ: return "SUBSET_OR_EQ"; case T::NOTSUBSET: return "NOTSUBSET";
  case T::DECART: return "DECART"; case T::UNION: return "UNION"; case T::INTERSECTION: return "INTERSECTION"; case T::SET_MINUS: return "SET_MINUS"; case T::SYMMINUS: return "SYMMINUS";
  case T::BOOLEAN: return "BOOLEAN"; case T::BIGPR: return "BIGPR"; case T::SMALLPR: return "SMALLPR"; case T::FILTER: return "FILTER"; case T::CARD: return "CARD";
  case T::BOOL: return "BOOL"; case T::DEBOOL: return "DEBOOL"; case T::REDUCE: return "REDUCE"; case T::ITERATE: return "ITERATE"; case T::ASSIGN: return "ASSIGN";
  case T::PUNC_DEFINE: return "DEFINE"; case T::PUNC_STRUCT: return "STRUCT";
  case T::NT_ENUM_DECL: return "ENUMDECL"; case T::NT_TUPLE: return "TUPLE"; case T::NT_ENUMERATION: return "ENUM"; case T::NT_TUPLE_DECL: return "TUPLEDECL";
  case T::NT_ARG_DECL: return "ARG"; case T::NT_FUNC_DEFINITION: return "FUNCDEF"; case T::NT_ARGUMENTS: return "ARGS"; case T::NT_FUNC_CALL: return "CALL";
  case T::NT_DECLARATIVE_EXPR: return "DECLARATIVE"; case T::NT_IMPERATIVE_EXPR: return "IMPERATIVE"; case T::NT_RECURSIVE_FULL: return "REC_FULL"; case T::NT_RECURSIVE_SHORT: return "REC_SHORT";
  default: return "TOKEN" + std::to_string(static_cast<int>(id));
  }
}
// same shape as the specification's trees: {id, s, n, ix, ch}; a call carries its name in s; ranges collected in preorder
inline json Project(ccl::rslang::SyntaxTree::Cursor c, std::vector<std::pair<int, int>>* ranges = nullptr) {
  json j = { {"id", IdName(c->id)}, {"s", ""}, {"n", 0}, {"ix", json::array()}, {"ch", json::array()} };
  if (c->data.IsText()) j["s"] = c->data.ToText();
  else if (c->data.IsInt()) j["n"] = c->data.ToInt();
  else if (c->data.IsTuple()) for (auto i : c->data.ToTuple()) j["ix"].push_back(static_cast<int>(i));
  if (ranges) ranges->push_back({ c->pos.start, c->pos.finish });
  ccl::rslang::Index first = 0;
  if (c->id == ccl::rslang::TokenID::NT_FUNC_CALL && c.ChildrenCount() > 0) { j["s"] = c(0).data.IsText() ? c(0).data.ToText() : ""; first = 1; }
  for (ccl::rslang::Index i = first; i < c.ChildrenCount(); ++i) j["ch"].push_back(Project(c.Child(i), ranges));
  return j;
}
// the specification writes Greek local names symbolically
inline json Materialise(const json& tree) {
  json t = tree;
  if (t["id"] == "LOCAL") t["s"] = Local(t["s"].get<std::string>());
  for (auto& c : t["ch"]) c = Materialise(c);
  return t;
}
inline json TranslitTree(const json& tree) {
  json t = tree;
  if (t["id"] == "LOCAL") t["s"] = Translit(t["s"].get<std::string>());
  for (auto& c : t["ch"]) c = TranslitTree(c);
  return t;
}
} // namespace rstext
