// Shared by the schema-level harnesses (h_schema, h_synth): identifier hook, kind names, text assembly, projection of an
// RSForm to JSON, the C09 invariants on a projected implementation state, save / load, alias renaming in type strings.
#pragma once
#include "rslang_text.hpp"
#include "ccl/semantic/RSForm.h"
#include "ccl/tools/JSON.h"
#include "ccl/tools/EntityGenerator.h"
#include "ccl/rslang/SyntaxTree.h"
#include <deque>
#include <set>
#include <map>

using vh::json;
using namespace ccl;
using semantic::CstType;
using semantic::RSForm;
using semantic::ConceptRecord;
using JSON = nlohmann::ordered_json;

inline std::deque<EntityUID> g_uids;    // identifiers the generator drew for the next insertions (hook)
inline void InstallHook() {
  tools::EntityGenerator::verifSource = []() -> EntityUID {
    if (g_uids.empty()) return static_cast<EntityUID>(1000000 + std::rand() % 1000000);
    const auto u = g_uids.front(); g_uids.pop_front(); return u;
  };
}

inline CstType KindOf(const std::string& k) {
  if (k == "base") return CstType::base; if (k == "constant") return CstType::constant; if (k == "structured") return CstType::structured;
  if (k == "axiom") return CstType::axiom; if (k == "term") return CstType::term; if (k == "function") return CstType::function;
  if (k == "theorem") return CstType::theorem; return CstType::predicate;
}
inline std::string KindName(CstType t) {
  switch (t) { case CstType::base: return "base"; case CstType::constant: return "constant"; case CstType::structured: return "structured";
    case CstType::axiom: return "axiom"; case CstType::term: return "term"; case CstType::function: return "function";
    case CstType::theorem: return "theorem"; default: return "predicate"; }
}
inline char LetterOf(CstType t) {
  switch (t) { case CstType::base: return 'X'; case CstType::constant: return 'C'; case CstType::structured: return 'S'; case CstType::axiom: return 'A';
    case CstType::term: return 'D'; case CstType::function: return 'F'; case CstType::theorem: return 'T'; default: return 'P'; }
}
inline std::string DefText(const json& toks) { return toks.empty() ? std::string{} : rstext::Assemble(toks, true, 0).text; }
inline std::string Words(const json& w) { std::string s; for (auto& x : w) { if (!s.empty()) s += ' '; s += x.get<std::string>(); } return s; }
// atoms: plain words and entity references; optional "f" = the word form asked for, "g" = glued to the previous atom (no space)
inline std::string Atoms(const json& q) { std::string s; for (auto& a : q) { if (!s.empty() && !a.value("g", false)) s += ' ';
  const std::string form = a.value("f", std::string{}).empty() ? std::string("sing,nomn") : a["f"].get<std::string>();
  s += a["r"].get<bool>() ? "@{" + a["s"].get<std::string>() + "|" + form + "}" : a["s"].get<std::string>(); } return s; }
inline std::string AsciiType(std::string s) {
  auto rep = [&](const std::string& a, const std::string& b) { size_t p; while ((p = s.find(a)) != std::string::npos) s.replace(p, a.size(), b); };
  rep("ℬ", "B"); rep("×", "*"); return s;
}

// ------------------------------------------------------------------ projection of the implementation state
inline json Project(const RSForm& f) {
  json items = json::array(), order = json::array();
  for (const auto uid : f.List()) {
    order.push_back(uid);
    json it = { {"uid", uid} };
    if (f.Core().Contains(uid)) {
      const auto& rs = f.GetRS(uid); const auto& tx = f.GetText(uid); const auto& p = f.GetParse(uid);
      it["alias"] = rs.alias; it["kind"] = KindName(rs.type); it["def"] = rs.definition; it["conv"] = rs.convention;
      it["term"] = tx.term.Text().Raw(); it["text"] = tx.definition.Raw(); it["termStr"] = tx.term.Nominal(); it["textStr"] = tx.definition.Str();
      it["tracked"] = f.Mods().IsTracking(uid); it["allow"] = f.Mods().IsTracking(uid) ? f.Mods()(uid)->allowEdit : false;
      it["ok"] = p.status == semantic::ParsingStatus::VERIFIED; it["status"] = static_cast<int>(p.status);
      it["type"] = p.exprType.has_value() ? (std::holds_alternative<rslang::LogicT>(*p.exprType) ? std::string("LOGIC") : AsciiType(std::get<rslang::Typification>(*p.exprType).ToString())) : std::string{};
      json args = json::array(); if (p.arguments.has_value()) for (auto& a : *p.arguments) args.push_back({ {"name", a.name}, {"type", AsciiType(a.type.ToString())} }); it["args"] = args;
      it["valueClass"] = static_cast<int>(p.valueClass);
      it["ast"] = p.ast ? rslang::AST2String::Apply(*p.ast) : std::string{};
      std::set<int> deps; for (auto d : f.RSLang().Graph().InputsFor(uid)) deps.insert(static_cast<int>(d)); it["deps"] = deps;
      it["textAlias"] = tx.alias; it["textUid"] = tx.uid; it["rsUid"] = rs.uid;
      { std::map<std::string, std::string> fm; for (const auto& [form, text] : tx.term.GetAllManual()) fm[form.ToString()] = text;      // manual word forms, by tag string
        json fj = json::array(); for (const auto& [k, v] : fm) fj.push_back({ k, v }); it["forms"] = fj; }
    } else it["missing"] = true;
    items.push_back(it);
  }
  return { {"order", order}, {"items", items} };
}

// C09 on the projected implementation state; uidPool = every identifier that ever occurred in the history
inline std::string Invariants(const RSForm& f, const std::set<EntityUID>& uidPool) {
  std::set<EntityUID> inList, inCore; std::set<std::string> aliases; size_t listLen = 0; int lastPrio = 99;
  auto prio = [](CstType t) { return t == CstType::base ? 4 : t == CstType::constant ? 3 : t == CstType::structured ? 2 : 1; };
  for (const auto uid : f.List()) { ++listLen; if (!inList.insert(uid).second) return "list contains an identifier twice";
    if (!f.Core().Contains(uid)) return "list entry missing in storage";
    const auto& rs = f.GetRS(uid);
    if (rs.uid != uid || f.GetText(uid).uid != uid) return "record identifier differs from its key";
    if (f.GetText(uid).alias != rs.alias) return "text part and formal part disagree on the alias";
    if (!aliases.insert(rs.alias).second) return "alias used twice";
    if (rs.alias.size() < 2 || rs.alias[0] != LetterOf(rs.type) || !std::all_of(rs.alias.begin() + 1, rs.alias.end(), [](char ch) { return std::isdigit(static_cast<unsigned char>(ch)); })) return "alias letter does not match kind";
    if (prio(rs.type) > lastPrio) return "list not grouped base < constant < structure < derived";
    lastPrio = prio(rs.type);
    const auto found = f.Core().FindAlias(rs.alias); if (!found.has_value() || *found != uid) return "FindAlias does not return the constituent"; }
  for (const auto uid : f.Core()) inCore.insert(uid);
  if (inCore != inList || f.Core().size() != listLen) return "list is not a permutation of the storage";
  size_t nTexts = 0; for (const auto& t : f.Texts()) { ++nTexts; if (!inCore.count(t.uid)) return "thesaurus holds a foreign constituent"; }
  if (nTexts != listLen) return "thesaurus size differs";
  for (const auto uid : uidPool) if (!inCore.count(uid)) {     // gone from every view
    if (f.List().Find(uid) != f.List().end() || f.RSLang().Contains(uid) || f.Texts().Contains(uid) || f.Mods().IsTracking(uid) || f.RSLang().Graph().Contains(uid))
      return "erased / never inserted identifier still visible in some view";
  }
  if (f.RSLang().Graph().ItemsCount() != static_cast<int>(listLen)) return "dependency graph has a different number of items";
  return "";
}

inline JSON Save(const RSForm& f) { JSON j = f; return j; }
inline std::unique_ptr<RSForm> LoadForm(const JSON& j) { auto f = std::make_unique<RSForm>(); j.get_to(*f); return f; }

inline ConceptRecord RecordOf(const json& r) {
  ConceptRecord rec; rec.uid = r["uid"].get<EntityUID>(); rec.alias = r["alias"]; rec.type = KindOf(r["kind"]); rec.rs = DefText(r["d"]); rec.convention = Words(r["conv"]);
  rec.term = lang::LexicalTerm(Atoms(r["term"])); rec.definition = lang::ManagedText(Atoms(r["text"]));
  return rec;
}

inline std::string RenameAliases(const std::string& type, const std::map<std::string, std::string>& map) {
  std::string out; size_t i = 0;
  while (i < type.size()) {
    if (std::isupper(static_cast<unsigned char>(type[i])) && i + 1 < type.size() && std::isdigit(static_cast<unsigned char>(type[i + 1]))) {
      size_t j = i + 1; while (j < type.size() && std::isdigit(static_cast<unsigned char>(type[j]))) ++j;
      const auto name = type.substr(i, j - i); const auto it = map.find(name); out += it == map.end() ? name : it->second; i = j;
    } else out += type[i++];
  }
  return out;
}
