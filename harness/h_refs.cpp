// C17: text references (Reference, RefsManager, ManagedText) against tla/Refs.tla (cases from Gen_C17); isolated, ASan.
#include "vh.hpp"
#include "ccl/lang/Reference.h"
#include "ccl/lang/RefsManager.h"
#include "ccl/lang/ManagedText.h"
#include "ccl/lang/LexicalTerm.h"

#include <random>

using vh::json;
using namespace ccl;
using namespace ccl::lang;

struct Ctx : EntityTermContext {
  std::unordered_map<std::string, LexicalTerm> terms;
  Ctx() {
    terms.emplace("X1", LexicalTerm(vh::Utf8({ 1095, 1077, 1083, 1086, 1074, 1077, 1082 })));
    terms.emplace("X2", LexicalTerm(std::string{}));
    LexicalTerm t3("t3"); t3.SetForm(Morphology{ Grammem::sing, Grammem::datv }, vh::Utf8({ 1083, 1102, 1076, 1103, 1084 }));
    terms.emplace("X3", std::move(t3));
    terms.emplace("X4", LexicalTerm(vh::Utf8({ 97, 98, 99, 100, 101, 102, 103, 104, 105, 233 })));
  }
  const LexicalTerm* At(const std::string& e) const override { auto it = terms.find(e); return it == terms.end() ? nullptr : &it->second; }
  bool Contains(const std::string& e) const override { return terms.count(e) > 0; }
};
static const Ctx& TheCtx() { static Ctx c; return c; }

static std::string U(const json& cps) { return vh::Utf8(vh::IntVec(cps)); }
static json CP(const std::string& s) { return vh::CodePoints(s); }
static json FormJ(const Morphology& m) { json a = json::array(); for (auto g : m.tags) a.push_back(static_cast<int>(g)); return a; }
static json RefJ(const Reference& r) {
  json j = { {"k", r.IsEntity() ? "entity" : r.IsCollaboration() ? "collab" : "invalid"}, {"s", r.position.start}, {"f", r.position.finish}, {"res", CP(r.resolvedText)} };
  if (r.IsEntity()) { j["name"] = CP(std::string(r.GetEntity())); j["form"] = FormJ(r.GetForm()); j["off"] = 0; }
  else if (r.IsCollaboration()) { j["name"] = CP(r.GetNominal()); j["form"] = json::array(); j["off"] = r.GetOffset(); }
  return j;
}
static bool SameRef(const Reference& r, const json& e) {
  if (e["k"] == "entity") return r.IsEntity() && CP(std::string(r.GetEntity())) == e["name"] && FormJ(r.GetForm()) == e["form"];
  return r.IsCollaboration() && CP(r.GetNominal()) == e["name"] && r.GetOffset() == e["off"].get<int>();
}
// every reference's range delimits its resolved text in txt; ranges ordered and non-overlapping
static std::string Aligned(const RefsManager& m, const std::vector<int>& txt) {
  int prevF = -1;
  for (const auto& r : m.get()) {
    if (r.position.start < 0 || r.position.finish > static_cast<int>(txt.size()) || r.position.start > r.position.finish) return "range out of text";
    if (prevF >= 0 && r.position.start < prevF) return "ranges overlap";
    std::vector<int> sub(txt.begin() + r.position.start, txt.begin() + r.position.finish);
    if (sub != vh::CodePoints(r.resolvedText)) return "range does not delimit the resolved text";
    prevF = r.position.finish;
  }
  return "";
}
static json RangesJ(const RefsManager& m) { json a = json::array(); for (const auto& r : m.get()) a.push_back({ {"s", r.position.start}, {"f", r.position.finish} }); return a; }

static void TextCase(const json& c, vh::Report& r) {
  const std::string text = U(c["cps"]);
  const bool fuzzy = c["unterminated"].get<bool>();
  std::string why; json detail;
  auto fail = [&](const std::string& w, json det = json()) {
    if (fuzzy) { r.Drift("C17", w + " (unterminated marker in text)", { {"cps", c["cps"]} }, det); return; }
    if (why.empty()) { why = w; detail = std::move(det); } };
  ++r.checks;
  // 1. extraction
  const auto refs = Reference::ExtractAll(text);
  json got = json::array(); for (auto& x : refs) got.push_back(RefJ(x));
  bool same = refs.size() == c["refs"].size();
  for (size_t i = 0; same && i < refs.size(); ++i) {
    const auto& e = c["refs"][i];
    same = SameRef(refs[i], e) && refs[i].position.start == e["s"].get<int>() && refs[i].position.finish == e["f"].get<int>();
    if (same && CP(refs[i].ToString()) != e["spell"]) fail("Reference.ToString", { {"index", i}, {"got", CP(refs[i].ToString())} });
  }
  if (!same) fail("ExtractAll", { {"got", got} });
  // 2. resolution: other text intact, ranges delimit the replacements
  RefsManager m(TheCtx());
  const std::string resolved = m.Resolve(text);
  const auto cps = vh::IntVec(c["cps"]);
  if (same && m.get().size() == refs.size()) {
    std::vector<int> expect; int from = 0, shift = 0; bool rangesOk = true;
    for (size_t i = 0; i < refs.size(); ++i) {
      const auto& e = c["refs"][i]; const auto& mr = m.get()[i];
      expect.insert(expect.end(), cps.begin() + from, cps.begin() + e["s"].get<int>());
      const auto res = vh::CodePoints(mr.resolvedText);
      if (e["rk"] == "form" && CP(mr.resolvedText) != e["rt"]) fail("Resolve.resolution", { {"index", i}, {"got", CP(mr.resolvedText)} });
      if (e["rk"] != "form" && res.empty()) fail("Resolve.empty-placeholder", { {"index", i} });
      const int s0 = e["s"].get<int>() + shift;
      if (mr.position.start != s0 || mr.position.finish != s0 + static_cast<int>(res.size())) rangesOk = false;
      expect.insert(expect.end(), res.begin(), res.end());
      shift += static_cast<int>(res.size()) - (e["f"].get<int>() - e["s"].get<int>());
      from = e["f"].get<int>();
    }
    expect.insert(expect.end(), cps.begin() + from, cps.end());
    if (vh::CodePoints(resolved) != expect || resolved != vh::Utf8(expect)) fail("Resolve.text", { {"got", CP(resolved)} });
    if (!rangesOk) fail("Resolve.ranges", { {"got", RangesJ(m)} });
    const auto al = Aligned(m, vh::CodePoints(resolved)); if (!al.empty()) fail("Resolve.aligned", { {"why", al} });
    // 3. writing back restores the source up to canonical spelling
    const auto back = m.OutputRefs(resolved);
    if (CP(back) != c["canon"]) fail("OutputRefs", { {"got", CP(back)} });
  } else if (same) fail("Resolve.refcount", { {"got", RangesJ(m)} });
  // 4. mentioned entities, 5. renaming
  {
    ManagedText mt(text);
    std::set<std::string> gotRef; for (auto& e : mt.Referals()) gotRef.insert(e);
    std::set<std::string> expRef; for (auto& e : c["referals"]) expRef.insert(U(e));
    if (gotRef != expRef) fail("Referals");
    mt.TranslateRaw(CreateTranslator(StrSubstitutes{ {"X1", "X11"}, {"X3", "X1"}, {"X2", "X2"} }));
    if (CP(mt.Raw()) != c["renamed"]) fail("TranslateRaw", { {"got", CP(mt.Raw())} });
  }
  if (!why.empty()) r.Violation("C17", why, { {"kind", "text"}, {"cps", c["cps"]} }, detail);
  if (!c["refs"].empty()) r.NonTrivial(c["cps"].dump());    // non-trivial: at least one valid reference
  if ((r.cases % 4999) == 7) r.Sample({ {"kind", "text"}, {"cps", c["cps"]}, {"text", text}, {"refs", c["refs"]} });
}

static void MgrCase(const json& c, vh::Report& r) {
  const std::string text = U(c["cps"]);
  RefsManager m(TheCtx());
  auto txt = vh::CodePoints(m.Resolve(text));
  std::string why; json detail;
  auto fail = [&](const std::string& w, json det = json()) { if (why.empty()) { why = w; detail = std::move(det); } };
  ++r.checks;
  if (RangesJ(m) != c["init"]) fail("mgr.init", { {"got", RangesJ(m)} });
  size_t step = 0;
  for (auto& op : c["hist"]) {
    ++step;
    const json before = RangesJ(m);
    if (op["op"] == "Resolve") {
      txt = vh::CodePoints(m.Resolve(U(op["cps"])));
      if (RangesJ(m) != op["ranges"]) fail("Resolve.reused-manager", { {"step", step}, {"got", RangesJ(m)}, {"expected", op["ranges"]} });
    } else if (op["op"] == "Insert") {
      const int pos = op["a"].get<int>();
      auto ref = Reference::Parse(op["b"].get<int>() == 22 ? "@{X1|nomn}" : "@{X3|datv,sing}");
      const Reference* ins = m.Insert(ref, pos);
      if (ins != nullptr) { const auto res = vh::CodePoints(ins->resolvedText); txt.insert(txt.begin() + pos, res.begin(), res.end()); }
      else if (RangesJ(m) != before) fail("Insert.refused-but-changed", { {"step", step} });
      if ((ins != nullptr) != op["ok"].get<bool>()) r.Drift("C17", "Insert accept/refuse differs from model", c, { {"step", step} });
    } else {
      const auto res = m.EraseIn(StrRange{ op["a"].get<int>(), op["b"].get<int>() }, op["x"].get<bool>());
      if (res.has_value()) {
        if (res->start < 0 || res->finish > static_cast<int>(txt.size()) || res->start > res->finish) { fail("EraseIn.range", { {"step", step} }); break; }
        // contract: exactly the references wholly inside the reported range disappear, the rest keep / shift
        json expect = json::array(); const int len = res->length(); bool partial = false;
        for (auto& b : before) { const int s = b["s"], f = b["f"];
          if (res->start <= s && f <= res->finish) continue;
          if (f <= res->start) expect.push_back(b); else if (s >= res->finish) expect.push_back({ {"s", s - len}, {"f", f - len} }); else partial = true; }
        if (partial) fail("EraseIn.partial-cut", { {"step", step}, {"range", { res->start, res->finish }} });
        else if (RangesJ(m) != expect) fail("EraseIn.contract", { {"step", step}, {"got", RangesJ(m)}, {"expected", expect} });
        txt.erase(txt.begin() + res->start, txt.begin() + res->finish);
      } else if (RangesJ(m) != before) fail("EraseIn.refused-but-changed", { {"step", step} });
      const bool sameDecision = res.has_value() == op["ok"].get<bool>() && (!res.has_value() || (res->start == op["r"]["s"].get<int>() && res->finish == op["r"]["f"].get<int>()));
      if (!sameDecision) r.Drift("C17", "EraseIn decision differs from model", c, { {"step", step} });
    }
    const auto al = Aligned(m, txt); if (!al.empty()) fail("aligned-after-" + op["op"].get<std::string>(), { {"step", step}, {"why", al}, {"ranges", RangesJ(m)} });
    if (!why.empty()) break;
  }
  if (!why.empty()) r.Violation("C17", why, c, detail);
  if (c["hist"].size() >= 1) r.NonTrivial(c.dump());
  if ((r.cases % 4999) == 8) r.Sample(c);
}

static void Handle(const json& c, vh::Report& r) { if (c["kind"] == "text") TextCase(c, r); else MgrCase(c, r); }

// ------------------------------------------------------------------ recording (direction B)
static int Record(const vh::Args& args) {
  const long n = args.num("record", 300);
  std::mt19937 g(static_cast<unsigned>(args.num("seed", 1)));
  std::ofstream out(args.get("trace"));
  vh::Report rep;
  static const char* macros[] = { "@{X1|nomn}", "@{X3|datv,sing}", "@{X9|plur}", "@{X2|nomn}", "@{1|dep}", "@{-1|d\xC3\xA9p}", "@{2|d}", "@{0|d}",
    "@{X1|nomn|sing}", "@{X1|nomn|1}", "@{X11|gent,plur}", "@{1|}", "@{X1|zzzz}", "@{-2|x y}", "@@{X1|nomn}", "@{X1|nomn|}", "@{99999999999|a}", "@{X3| sing , datv }", "@{X4|nomn}",
    "a", " ", "\xC3\xA9", "\xE2\x84\xAC", "\xF0\xA0\x9C\x8E", "@", "{", "}", "|", "X1", ",", "word " };
  const int nm = sizeof(macros) / sizeof(macros[0]);
  long events = 0;
  RefsManager m(TheCtx());          // one long-lived manager: nothing of an earlier text may survive a Resolve
  for (long i = 0; i < n; ++i) {
    std::string text; int atoms = (g() % 5 == 0) ? static_cast<int>(g() % 3) : 3 + static_cast<int>(g() % 24);
    for (int k = 0; k < atoms; ++k) { int a = static_cast<int>(g() % nm); if (a >= 24 && a <= 27 && g() % 4) a = 19; text += macros[a]; }
    const auto refs = Reference::ExtractAll(text);
    const std::string resolved = m.Resolve(text);
    json rj = json::array();
    for (size_t k = 0; k < refs.size(); ++k) { json j = RefJ(refs[k]); j.erase("res"); j["spell"] = CP(refs[k].ToString());
      if (k < m.get().size()) { j["res"] = CP(m.get()[k].resolvedText); j["rs"] = m.get()[k].position.start; j["rf"] = m.get()[k].position.finish; } rj.push_back(j); }
    json refl = json::array(); for (auto& e : ManagedText(text).Referals()) refl.push_back(CP(e));
    out << json{ {"e", "Text"}, {"cps", CP(text)}, {"refs", rj}, {"resolved", CP(resolved)}, {"back", CP(m.OutputRefs(resolved))}, {"referals", refl}, {"nrefs", m.get().size()} }.dump() << std::endl; ++events;
    // a few range operations on the same manager
    auto txt = vh::CodePoints(resolved);
    for (int k = 0; k < 6; ++k) {
      const json before = RangesJ(m); const int len = static_cast<int>(txt.size());
      json ev = { {"e", "Mgr"}, {"before", before} };
      if (g() % 3 == 0) {
        const int pos = static_cast<int>(g() % (len + 1));
        auto ref = Reference::Parse(g() % 2 ? "@{X1|nomn}" : "@{X3|datv,sing}");
        const Reference* ins = m.Insert(ref, pos);
        ev["op"] = "Insert"; ev["a"] = pos; ev["ok"] = ins != nullptr; ev["len"] = 0; ev["rs"] = 0; ev["rf"] = 0;
        if (ins) { const auto res = vh::CodePoints(ins->resolvedText); ev["len"] = res.size(); txt.insert(txt.begin() + pos, res.begin(), res.end()); }
      } else {
        int a = static_cast<int>(g() % (len + 1)), b = a + static_cast<int>(g() % 9); if (b > len) b = len;
        if (!before.empty() && g() % 3 == 0) { const auto& p = before[g() % before.size()]; a = p["s"].get<int>() - static_cast<int>(g() % 2); b = p["f"].get<int>() + static_cast<int>(g() % 2); if (a < 0) a = 0; if (b > len) b = len; }
        const bool expand = g() % 2;
        const auto res = m.EraseIn(StrRange{ a, b }, expand);
        ev["op"] = "Erase"; ev["a"] = a; ev["b"] = b; ev["x"] = expand; ev["ok"] = res.has_value(); ev["len"] = 0;
        ev["rs"] = res ? res->start : 0; ev["rf"] = res ? res->finish : 0;
        if (res && res->start >= 0 && res->finish <= len && res->start <= res->finish) txt.erase(txt.begin() + res->start, txt.begin() + res->finish);
      }
      ev["after"] = RangesJ(m); ev["aligned"] = Aligned(m, txt).empty();
      out << ev.dump() << std::endl; ++events;
    }
    ++rep.cases;
  }
  rep.counters["events"] = events;
  rep.Write(args.get("out"));
  return 0;
}

int main(int argc, char** argv) {
  { vh::Args args(argc, argv); if (args.has("record")) return vh::RunRecorder(args.get("trace"), args.get("out"), [&]() { return Record(args); }); }
  vh::IsoOptions iso; iso.faultProperty = "C17"; iso.batch = 4000;
  return vh::Main(argc, argv, Handle, true, iso);
}
