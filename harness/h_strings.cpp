// C20: ccl/Strings.hpp against tla/Strings.tla (cases from Gen_C20)
#include "vh.hpp"
#include "ccl/Strings.hpp"

using vh::json;
using ccl::StrRange;

static std::string U(const json& cps) { return vh::Utf8(vh::IntVec(cps)); }

static void StrCase(const json& c, vh::Report& r) {
  const std::string text = U(c["cps"]);
  std::string why; json detail;
  auto fail = [&](const std::string& w, json det = json()) { if (why.empty()) { why = w; detail = std::move(det); } };
  const int n = c["size"].get<int>();
  ++r.checks;
  if (static_cast<int>(text.size()) != c["bytes"].get<int>()) fail("harness.encoding");
  if (ccl::SizeInCodePoints(text) != n) fail("SizeInCodePoints", { {"got", ccl::SizeInCodePoints(text)} });
  { // iteration: each code point once, with position, byte offset and size
    size_t k = 0; bool ok = true;
    for (auto it = ccl::UTF8Begin(text); it != ccl::UTF8End(text); ++it, ++k) {
      if (k >= c["iter"].size()) { ok = false; break; }
      const auto& e = c["iter"][k];
      if (it.Position() != e["pos"].get<int>() || static_cast<int>(it.BytePosition()) != e["byte"].get<int>() ||
          static_cast<int>(it.SymbolSize()) != e["size"].get<int>() || *it != text[e["byte"].get<size_t>()]) { ok = false; break; }
    }
    if (!ok || k != c["iter"].size()) fail("UTF8Iterator.iteration", { {"visited", k} });
    for (int p = 0; p <= n + 1; ++p) {   // random access construction
      ccl::UTF8Iterator it(text, p);
      if (p < n) { if (it.Position() != p || static_cast<int>(it.BytePosition()) != c["iter"][p]["byte"].get<int>()) fail("UTF8Iterator.goto", { {"pos", p} }); }
      else if (it != ccl::UTF8End(text)) fail("UTF8Iterator.goto.end", { {"pos", p} });
    }
  }
  for (auto& s : c["substr"]) {
    auto got = ccl::Substr(text, StrRange{ s["a"].get<int>(), s["b"].get<int>() });
    if (std::string(got) != U(s["r"])) fail("Substr", { {"a", s["a"]}, {"b", s["b"]}, {"got", vh::CodePoints(std::string(got))} });
  }
  auto cmpSplit = [&](const char* key, char d) {
    auto got = ccl::SplitBySymbol(text, d);
    bool ok = got.size() == c[key].size();
    for (size_t i = 0; ok && i < got.size(); ++i) ok = std::string(got[i]) == U(c[key][i]);
    if (!ok) { json g = json::array(); for (auto& f : got) g.push_back(vh::CodePoints(std::string(f))); fail(std::string("SplitBySymbol.") + key, { {"got", g} }); }
  };
  cmpSplit("split44", ','); cmpSplit("split45", '-');
  { auto got = std::string(ccl::TrimWhitespace(text)); if (got != U(c["trim"])) fail("TrimWhitespace", { {"got", vh::CodePoints(got)} }); }
  if (ccl::IsInteger(text) != c["isint"].get<bool>()) fail("IsInteger", { {"got", ccl::IsInteger(text)} });
  if (!why.empty()) r.Violation("C20", why, c, detail);
  if (n >= 2) r.NonTrivial("s" + c["cps"].dump());   // non-trivial: at least two code points
}

static StrRange R(const json& j) { return StrRange{ j["s"].get<int>(), j["f"].get<int>() }; }

static void RngCase(const json& c, vh::Report& r) {
  std::string why; json detail;
  auto fail = [&](const std::string& w, json det = json()) { if (why.empty()) { why = w; detail = std::move(det); } };
  std::vector<StrRange> list; for (auto& x : c["list"]) list.push_back(R(x));
  ++r.checks;
  { auto m = StrRange::Merge(list); if (m != R(c["merge"])) fail("Merge", { {"got", { m.start, m.finish }} }); }
  if (!c["rel"].empty()) {
    const auto& e = c["rel"][0]; const StrRange a = list[0], b = list[1];
    auto eq = [&](const char* k, bool got) { if (got != e[k].get<bool>()) fail(std::string("StrRange.") + k, { {"got", got} }); };
    eq("before", a.IsBefore(b)); eq("after", a.IsAfter(b)); eq("meets", a.Meets(b)); eq("starts", a.Starts(b));
    eq("finishes", a.Finishes(b)); eq("during", a.IsDuring(b)); eq("equal", a == b);
    if ((a != b) == e["equal"].get<bool>()) fail("StrRange.notequal");
    // dual and symmetric relations agree with each other - for every pair of ranges, empty operands included
    if (a.IsBefore(b) != b.IsAfter(a)) fail("StrRange.before/after duality");
    if (a.Overlaps(b) != b.Overlaps(a)) fail("StrRange.overlaps symmetry");
    if (a.SharesBorder(b) != b.SharesBorder(a)) fail("StrRange.shares symmetry");
    if (e["proper"].get<bool>()) { eq("overlaps", a.Overlaps(b)); eq("contains", a.Contains(b)); eq("shares", a.SharesBorder(b)); }
    else {
      if (a.Overlaps(b) != e["overlapsImpl"].get<bool>()) r.Drift("C20", "Overlaps(empty operand)", c);
      if (a.Contains(b) != e["containsImpl"].get<bool>()) r.Drift("C20", "Contains(empty operand)", c);
      if (a.SharesBorder(b) != e["shares"].get<bool>()) r.Drift("C20", "SharesBorder(empty operand)", c);
    }
    int p = -2; for (auto& v : e["containsPos"]) { if (a.Contains(p) != v.get<bool>()) fail("StrRange.Contains(pos)", { {"pos", p} }); ++p; }
    if (a.length() != e["lenA"].get<int>() || a.empty() != (e["lenA"].get<int>() == 0)) fail("StrRange.length");
    auto is = a.Intersect(b);
    if (is.has_value() == e["isect"]["none"].get<bool>()) fail("Intersect.none", { {"got_has_value", is.has_value()} });
    else if (is.has_value() && *is != R(e["isect"])) fail("Intersect", { {"got", { is->start, is->finish }} });
  }
  if (!why.empty()) r.Violation("C20", why, c, detail);
  if (list.size() >= 2) r.NonTrivial("r" + c["list"].dump());
}

// ------------------------------------------------------------------ recording (direction B)
#include <random>
static json RJ(const StrRange& x) { return { {"s", x.start}, {"f", x.finish} }; }
static int Record(const vh::Args& args) {
  const long n = args.num("record", 1000);
  std::mt19937 rng(static_cast<unsigned>(args.num("seed", 1)));
  std::ofstream out(args.get("trace"));
  vh::Report rep;
  auto rnd = [&](int lo, int hi) { return std::uniform_int_distribution<int>(lo, hi)(rng); };
  auto cp = [&]() {
    switch (rnd(0, 9)) {
      case 0: return 32; case 1: return 44; case 2: return 45; case 3: return rnd(48, 57); case 4: return rnd(9, 13);
      case 5: return rnd(128, 2047); case 6: { int c = rnd(2048, 65535); return (c >= 0xD800 && c <= 0xDFFF) ? 0x2211 : c; }
      case 7: return rnd(65536, 0x10FFFF); default: return rnd(33, 126);
    }
  };
  for (long i = 0; i < n; ++i) {
    json ev;
    if (i % 2 == 0) {
      std::vector<int> cps; int len = rnd(0, 24); for (int k = 0; k < len; ++k) cps.push_back(cp());
      const std::string text = vh::Utf8(cps);
      ev["e"] = "Str"; ev["cps"] = cps; ev["size"] = ccl::SizeInCodePoints(text); ev["bytes"] = text.size();
      json it = json::array();
      for (auto p = ccl::UTF8Begin(text); p != ccl::UTF8End(text); ++p) it.push_back({ {"pos", p.Position()}, {"byte", p.BytePosition()}, {"size", p.SymbolSize()} });
      ev["iter"] = it;
      int a = rnd(0, len + 1), b = rnd(a, len + 2);
      ev["a"] = a; ev["b"] = b; ev["substr"] = vh::CodePoints(std::string(ccl::Substr(text, StrRange{ a, b })));
      json sp = json::array(); for (auto& f : ccl::SplitBySymbol(text, ',')) sp.push_back(vh::CodePoints(std::string(f))); ev["split44"] = sp;
      ev["trim"] = vh::CodePoints(std::string(ccl::TrimWhitespace(text))); ev["isint"] = ccl::IsInteger(text);
    } else {
      auto rr = [&]() { int s = rnd(-50, 50); return StrRange{ s, s + (rnd(0, 3) == 0 ? 0 : rnd(0, 30)) }; };
      StrRange a = rr(), b = rnd(0, 4) == 0 ? StrRange{ a.start + rnd(-1, 1), a.finish + rnd(0, 1) } : rr();
      if (b.start > b.finish) b.finish = b.start;
      StrRange c3 = rr();
      ev["e"] = "Rng"; ev["a"] = RJ(a); ev["b"] = RJ(b); ev["c"] = RJ(c3);
      ev["before"] = a.IsBefore(b); ev["after"] = a.IsAfter(b); ev["meets"] = a.Meets(b); ev["starts"] = a.Starts(b);
      ev["finishes"] = a.Finishes(b); ev["during"] = a.IsDuring(b); ev["equal"] = (a == b); ev["overlaps"] = a.Overlaps(b);
      ev["contains"] = a.Contains(b); ev["shares"] = a.SharesBorder(b);
      int p = rnd(-55, 85); ev["p"] = p; ev["containsPos"] = a.Contains(p);
      auto is = a.Intersect(b); ev["isect"] = is.has_value() ? json{ {"none", false}, {"s", is->start}, {"f", is->finish} } : json{ {"none", true}, {"s", 0}, {"f", 0} };
      ev["merge"] = RJ(StrRange::Merge({ a, b, c3 }));
    }
    out << ev.dump() << std::endl; ++rep.cases;
  }
  rep.counters["events"] = n;
  rep.Write(args.get("out"));
  return 0;
}

int main(int argc, char** argv) {
  { vh::Args args(argc, argv); if (args.has("record")) return vh::RunRecorder(args.get("trace"), args.get("out"), [&]() { return Record(args); }); }
  vh::IsoOptions iso; iso.faultProperty = "C20"; iso.batch = 4000; iso.watchdogSeconds = 90;
  return vh::Main(argc, argv, [](const json& c, vh::Report& r) {
    if (c["kind"] == "str") StrCase(c, r); else RngCase(c, r);
    if (r.samples.size() < 3 && (r.cases % 9973) == 1) r.Sample(c);
  }, true, iso);
}
