// C12 (synthesis / merge / equation / duplicates) against tla/SchemaOps.tla (cases from Gen_Synth).
// Every case: two operand schemas as build steps, an equation table, and the model's verdict / result / translations.
// The statement's contract is evaluated on the implementation's own result (aliases, translations, images of definitions and
// texts, correctness and typifications); the model's exact result is compared at drift level.
#include "schema_common.hpp"
#include "ccl/ops/RSOperations.h"

static std::set<std::string> g_props;

static std::unique_ptr<RSForm> Build(const json& steps) {
  auto f = std::make_unique<RSForm>();
  for (const auto& s : steps) {
    g_uids.clear(); g_uids.push_back(s["uid"].get<EntityUID>());
    const auto u = f->Emplace(KindOf(s["k"]), DefText(s["d"]));
    if (!s["tx"].empty()) (void)f->SetDefinitionFor(u, Atoms(s["tx"]));
    if (s.contains("tm") && !s["tm"].empty()) (void)f->SetTermFor(u, Atoms(s["tm"]));
  }
  g_uids.clear();
  return f;
}
static json RenameToks(const json& toks, const std::map<std::string, std::string>& map) {
  json out = json::array();
  for (const auto& t : toks) { const std::string s = t; if (!s.empty() && s[0] == '$') { const auto it = map.find(s.substr(1)); out.push_back(it == map.end() ? s : "$" + it->second); } else out.push_back(s); }
  return out;
}
static json RenameAtoms(const json& atoms, const std::map<std::string, std::string>& map) {
  json out = json::array();
  for (const auto& a : atoms) { json b = a; if (a["r"].get<bool>()) { const auto it = map.find(a["s"].get<std::string>()); if (it != map.end()) b["s"] = it->second; } out.push_back(b); }
  return out;
}
static std::string TypeOfCst(const RSForm& f, EntityUID u) {
  const auto& p = f.GetParse(u);
  return p.exprType.has_value() ? (std::holds_alternative<rslang::LogicT>(*p.exprType) ? std::string("LOGIC") : AsciiType(std::get<rslang::Typification>(*p.exprType).ToString())) : std::string{};
}
static bool IsOk(const RSForm& f, EntityUID u) { return f.GetParse(u).status == semantic::ParsingStatus::VERIFIED; }

// image checks for one operand: op = operand schema, steps = its build steps, image(u) = result identifier
static void CheckOperandImages(const char* which, const RSForm& op, const json& steps, const std::map<EntityUID, EntityUID>& image, const std::set<EntityUID>& keyUids, const std::set<EntityUID>& equated,
                               const RSForm& res, bool noDangling, bool typed, const json& wit, vh::Report& r) {
  std::map<std::string, std::string> names;      // operand alias -> alias of its image
  for (const auto u : op.List()) { const auto it = image.find(u); if (it != image.end() && res.Contains(it->second)) names[op.GetRS(u).alias] = res.GetRS(it->second).alias; }
  size_t i = 0;
  for (const auto& s : steps) {
    ++i; const EntityUID u = s["uid"].get<EntityUID>();
    const auto it = image.find(u);
    ++r.checks;
    json info = { {"operand", which}, {"constituent", op.GetRS(u).alias} };
    if (it == image.end()) { r.Violation("C12", "translation does not cover an operand constituent", wit, info); continue; }
    if (!res.Contains(it->second)) { info["image"] = it->second; r.Violation("C12", "translation maps to a constituent that is not in the result", wit, info); continue; }
    if (keyUids.count(u)) continue;              // an equation key is replaced by its value: its own texts are dropped
    const auto& img = res.GetRS(it->second);
    if (noDangling) {
      const std::string expect = DefText(RenameToks(s["d"], names));
      if (img.definition != expect) { info["got"] = img.definition; info["expected"] = expect; r.Violation("C12", "definition of the image is not the operand's definition with every mention rewritten", wit, info); }
      // the texts of an equated pair are chosen by the table's option (keep / replace): compared with the model only
      const std::string expectTx = Atoms(RenameAtoms(s["tx"], names));
      if (!equated.count(u) && res.GetText(it->second).definition.Raw() != expectTx) { info["got"] = res.GetText(it->second).definition.Raw(); info["expected"] = expectTx; r.Violation("C12", "text of the image is not the operand's text with every reference rewritten", wit, info); }
    }
    if (typed) {
      if (!IsOk(res, it->second)) { r.Violation("C12", "correct operands and a like-with-like table, but the result is not fully correct", wit, info); continue; }
      const std::string expect = RenameAliases(TypeOfCst(op, u), names);
      if (TypeOfCst(res, it->second) != expect) { info["got"] = TypeOfCst(res, it->second); info["expected"] = expect; r.Violation("C12", "image does not keep its typification", wit, info); }
    }
  }
}
// the same clauses with the operand given as an object: its definitions and texts are renamed by whole identifiers
static std::string RenameIdentifiers(const std::string& text, const std::map<std::string, std::string>& map) { return RenameAliases(text, map); }
static void CheckSchemaImages(const RSForm& op, const std::map<EntityUID, EntityUID>& image, const std::set<EntityUID>& keyUids, const std::set<EntityUID>& equated,
                              const RSForm& res, bool noDangling, bool typed, const json& wit, vh::Report& r) {
  std::map<std::string, std::string> names;
  for (const auto u : op.List()) { const auto it = image.find(u); if (it != image.end() && res.Contains(it->second)) names[op.GetRS(u).alias] = res.GetRS(it->second).alias; }
  for (const auto u : op.List()) {
    const auto it = image.find(u);
    ++r.checks;
    json info = { {"operand", "schema"}, {"constituent", op.GetRS(u).alias} };
    if (it == image.end()) { r.Violation("C12", "translation does not cover an operand constituent", wit, info); continue; }
    if (!res.Contains(it->second)) { info["image"] = it->second; r.Violation("C12", "translation maps to a constituent that is not in the result", wit, info); continue; }
    if (keyUids.count(u)) continue;
    if (noDangling) {
      const std::string expect = RenameIdentifiers(op.GetRS(u).definition, names);
      if (res.GetRS(it->second).definition != expect) { info["got"] = res.GetRS(it->second).definition; info["expected"] = expect; r.Violation("C12", "definition of the image is not the operand's definition with every mention rewritten", wit, info); }
      const std::string expectTx = RenameIdentifiers(op.GetText(u).definition.Raw(), names);
      if (!equated.count(u) && res.GetText(it->second).definition.Raw() != expectTx) { info["got"] = res.GetText(it->second).definition.Raw(); info["expected"] = expectTx; r.Violation("C12", "text of the image is not the operand's text with every reference rewritten", wit, info); }
    }
    if (typed) {
      if (!IsOk(res, it->second)) { r.Violation("C12", "correct operands and a like-with-like table, but the result is not fully correct", wit, info); continue; }
      const std::string expect = RenameAliases(TypeOfCst(op, u), names);
      if (TypeOfCst(res, it->second) != expect) { info["got"] = TypeOfCst(res, it->second); info["expected"] = expect; r.Violation("C12", "image does not keep its typification", wit, info); }
    }
  }
}
static void CompareWithModel(const RSForm& res, const json& items, const json& wit, vh::Report& r) {
  std::string diff; size_t i = 0;
  for (const auto u : res.List()) {
    if (i >= items.size()) { diff = "count"; break; }
    const auto& e = items[i++];
    if (e["uid"].get<EntityUID>() != u) { diff = "order / identifiers"; break; }
    if (res.GetRS(u).alias != e["alias"].get<std::string>()) { diff = "alias"; break; }
    if (res.GetRS(u).definition != DefText(e["d"])) { diff = "definition"; break; }
    if (res.GetText(u).definition.Raw() != Atoms(e["tx"])) { diff = "text"; break; }
    if (e.contains("tm") && res.GetText(u).term.Text().Raw() != Atoms(e["tm"])) { diff = "term"; break; }
    if (IsOk(res, u) != e["ok"].get<bool>()) { diff = "status"; break; }
    if (e["ok"].get<bool>() && TypeOfCst(res, u) != e["type"].get<std::string>()) { diff = "type"; break; }
  }
  if (diff.empty() && i != items.size()) diff = "count";
  if (!diff.empty()) r.Drift("C12", "result differs from the model: " + diff, wit, { {"got", Project(res)} });
}
// a table entry is [key, value] or [key, value, option]: "hier" keeps the value's texts, "del" takes the key's, "new" sets a new term
static ops::EquationOptions TableOf(const json& pairs) {
  ops::EquationOptions e;
  for (const auto& p : pairs) {
    ops::Equation opt{};
    if (p.size() > 2) { const std::string m = p[2]; if (m == "del") opt = ops::Equation{ ops::Equation::Mode::keepDel, "" }; else if (m == "new") opt = ops::Equation{ ops::Equation::Mode::createNew, "renamed" }; }
    e.Insert(p[0].get<EntityUID>(), p[1].get<EntityUID>(), opt);
  }
  return e;
}
static std::map<EntityUID, EntityUID> MapOf(const EntityTranslation& t) { std::map<EntityUID, EntityUID> m; for (const auto& [k, v] : t) m[k] = v; return m; }

static void HandleSynth(const json& c, vh::Report& r) {
  const json wit = { {"mode", "synth"}, {"a", c["a"]}, {"b", c["b"]}, {"table", c["table"]} };
  auto a = Build(c["a"]); auto b = Build(c["b"]);
  const json pa = Project(*a), pb = Project(*b);
  g_uids.clear(); for (const auto& u : c["fresh"]) g_uids.push_back(u.get<EntityUID>());
  std::unique_ptr<RSForm> res; bool defined = false; std::map<EntityUID, EntityUID> t1, t2;
  ++r.checks;
  try {
    ops::BinarySynthes op{ *a, *b, TableOf(c["table"]) };
    defined = op.IsCorrectlyDefined();
    res = op.Execute();
    if (res) { t1 = MapOf(op.Translations().at(0)); t2 = MapOf(op.Translations().at(1)); }
  } catch (const std::exception& ex) { r.Violation("C12", "exception instead of a verdict", wit, { {"what", ex.what()} }); return; }
  g_uids.clear();
  if (Project(*a) != pa || Project(*b) != pb) r.Violation("C12", "synthesis modified an operand", wit, {});
  if (defined != (res != nullptr)) { r.Violation("C12", "Execute disagrees with IsCorrectlyDefined", wit, {}); return; }
  const bool specDefined = c["defined"].get<bool>();
  if (defined != specDefined) { r.Violation("C12", defined ? "table accepted although the rules refuse it" : "admissible table refused", wit, {}); if (!defined) return; }
  if (!defined) return;
  // ---- the contract on the implementation's own result
  std::set<EntityUID> pool; for (const auto u : res->List()) pool.insert(u);
  if (const auto inv = Invariants(*res, pool); !inv.empty()) { r.Violation("C12", "result schema: " + inv, wit, { {"got", Project(*res)} }); return; }
  for (const auto& p : c["table"]) {
    ++r.checks;
    const auto i1 = t1.find(p[0].get<EntityUID>()), i2 = t2.find(p[1].get<EntityUID>());
    if (i1 == t1.end() || i2 == t2.end() || i1->second != i2->second) r.Violation("C12", "equated pair does not share one image", wit, { {"pair", p} });
  }
  std::set<EntityUID> keys1, keys2; std::map<EntityUID, EntityUID> back;       // merged identifier -> operand-2 identifier
  for (const auto& p : c["mtr"]) back[p[1].get<EntityUID>()] = p[0].get<EntityUID>();
  for (const auto& k : c["keys"]) { const EntityUID u = k.get<EntityUID>(); if (back.count(u)) keys2.insert(back[u]); else keys1.insert(u); }
  const bool typed = specDefined && c["correct"].get<bool>() && c["like"].get<bool>();
  std::set<EntityUID> eq1, eq2; for (const auto& p : c["table"]) { eq1.insert(p[0].get<EntityUID>()); eq2.insert(p[1].get<EntityUID>()); }
  CheckOperandImages("first", *a, c["a"], t1, keys1, eq1, *res, c["noDangling1"].get<bool>(), typed, wit, r);
  CheckOperandImages("second", *b, c["b"], t2, keys2, eq2, *res, c["noDangling2"].get<bool>(), typed, wit, r);
  if (typed) for (const auto u : res->List()) if (!IsOk(*res, u)) r.Violation("C12", "correct operands and a like-with-like table, but the result is not fully correct", wit, { {"alias", res->GetRS(u).alias} });
  // ---- the model's exact result and translations (drift level)
  if (specDefined) {
    CompareWithModel(*res, c["items"], wit, r);
    std::map<EntityUID, EntityUID> m1, m2; for (const auto& p : c["t1"]) m1[p[0].get<EntityUID>()] = p[1].get<EntityUID>(); for (const auto& p : c["t2"]) m2[p[0].get<EntityUID>()] = p[1].get<EntityUID>();
    if (m1 != t1 || m2 != t2) r.Drift("C12", "translations differ from the model", wit, { {"t1", t1}, {"t2", t2} });
  }
}

static void HandleEquate(const json& c, vh::Report& r) {
  const bool twice = c["mode"] == "equate2";
  json wit = { {"mode", c["mode"]}, {"a", c["a"]}, {"table", c["table"]} };
  if (twice) wit["first"] = c["first"];
  auto a = Build(c["a"]);
  if (twice) {   // the same RSForm is equated a first time (admissible by construction of the case)
    try { if (!a->Ops().Equate(TableOf(c["first"])).has_value()) { r.Drift("C12", "first table of a sequence refused", wit, {}); return; } }
    catch (const std::exception& ex) { r.Violation("C12", "exception instead of a verdict", wit, { {"what", ex.what()} }); return; }
  }
  auto orig = std::make_unique<RSForm>(*a);
  const json pa = Project(*a);
  ++r.checks;
  bool equatable = false; std::optional<EntityTranslation> tr;
  try {
    const auto table = TableOf(c["table"]);
    equatable = a->Ops().IsEquatable(table);
    if (Project(*a) != pa) r.Violation("C12", "IsEquatable modified the schema", wit, {});
    tr = a->Ops().Equate(table);
  } catch (const std::exception& ex) { r.Violation("C12", "exception instead of a verdict", wit, { {"what", ex.what()} }); return; }
  if (equatable != tr.has_value()) { r.Violation("C12", "Equate disagrees with IsEquatable", wit, {}); return; }
  const bool specDefined = c["defined"].get<bool>();
  if (!tr.has_value()) {
    if (Project(*a) != pa) r.Violation("C12", "refused table modified the schema", wit, {});
    if (specDefined) r.Violation("C12", "admissible table refused", wit, {});
    return;
  }
  if (!specDefined) r.Violation("C12", "table accepted although the rules refuse it", wit, {});
  std::set<EntityUID> pool; for (const auto u : a->List()) pool.insert(u);
  if (const auto inv = Invariants(*a, pool); !inv.empty()) { r.Violation("C12", "result schema: " + inv, wit, { {"got", Project(*a)} }); return; }
  // exact translation: entries only for constituents of the schema the call was made on
  for (const auto& [k, v] : *tr) if (!orig->Contains(k)) r.Violation("C12", "translation has an entry for an identifier that was not in the schema", wit, { {"key", k}, {"value", v} });
  std::map<EntityUID, EntityUID> image; for (const auto u : orig->List()) image[u] = tr->ContainsKey(u) ? (*tr)(u) : u;
  for (const auto& p : c["table"]) { ++r.checks; if (image[p[0].get<EntityUID>()] != image[p[1].get<EntityUID>()]) r.Violation("C12", "equated pair does not share one image", wit, { {"pair", p} }); }
  std::set<EntityUID> keys; for (const auto& p : c["table"]) keys.insert(p[0].get<EntityUID>());
  const bool typed = specDefined && c["correct"].get<bool>() && c["like"].get<bool>();
  std::set<EntityUID> eqAll; for (const auto& p : c["table"]) { eqAll.insert(p[0].get<EntityUID>()); eqAll.insert(p[1].get<EntityUID>()); }
  CheckSchemaImages(*orig, image, keys, eqAll, *a, c["noDangling1"].get<bool>(), typed, wit, r);
  if (specDefined) {
    CompareWithModel(*a, c["items"], wit, r);
    std::map<EntityUID, EntityUID> m; for (const auto& p : c["tr"]) m[p[0].get<EntityUID>()] = p[1].get<EntityUID>();
    if (m != image) r.Drift("C12", "translation differs from the model", wit, { {"got", image} });
  }
}

static void Handle(const json& c, vh::Report& r) {
  if (c["mode"] == "synth") HandleSynth(c, r); else HandleEquate(c, r);
  r.Count("mode." + c["mode"].get<std::string>() + (c["defined"].get<bool>() ? ".defined" : ".refused"));
  if (c["table"].size() + c["a"].size() >= 3) r.NonTrivial(c["a"].dump() + (c.contains("b") ? c["b"].dump() : std::string()) + c["table"].dump());
  if ((r.cases % 4973) == 11) r.Sample(c);
}

int main(int argc, char** argv) {
  vh::Args args(argc, argv);
  { std::stringstream ss(args.get("props")); std::string p; while (std::getline(ss, p, ',')) if (!p.empty()) g_props.insert(p); }
  InstallHook();
  vh::IsoOptions iso; iso.faultProperty = "C12"; iso.batch = 500; iso.watchdogSeconds = 90;
  return vh::Main(argc, argv, Handle, true, iso);
}
