// Language layer: parser (C06), printer (C05), type checker (C03), evaluator (C01), soundness/safety (C02)
// against tla/RSSyntax.tla, RSTyping.tla, RSEval.tla (cases from Gen_Lang).  Isolated; also built with ASan+UBSan.
#include "rsconv.hpp"
#include "rslang_text.hpp"
#include "ccl/rslang/Parser.h"
#include "ccl/rslang/Interpreter.h"
#include "ccl/rslang/Auditor.h"
#include "ccl/rslang/RSGenerator.h"
#include "ccl/rslang/RSExpr.h"
#include "ccl/semantic/RSModel.h"

using vh::json;
using namespace ccl;
using namespace ccl::rslang;
using object::StructuredData;
using object::Factory;
using semantic::CstType;
using semantic::RSModel;

static std::set<std::string> g_props;      // which properties' comparisons are enabled
static bool On(const char* p) { return g_props.empty() || g_props.count(p) > 0; }

// ------------------------------------------------------------------ context (same as Gen_Lang: G, F, FD, Interps)
struct World { RSModel m; EntityUID x1{}, c1{}, s1{}, s2{}; std::unique_ptr<Interpreter> interp; };
static StructuredData S(std::initializer_list<StructuredData> l) { return Factory::Set(std::vector<StructuredData>(l)); }
static void Setup(World& w, int nx, int nc, const StructuredData& s1v, const StructuredData& s2v) {
  w.x1 = w.m.Emplace(CstType::base); w.c1 = w.m.Emplace(CstType::constant);
  w.s1 = w.m.Emplace(CstType::structured, "ℬ(X1×X1)"); w.s2 = w.m.Emplace(CstType::structured, "ℬℬ(X1)");
  w.m.Emplace(CstType::function, "[a∈ℬ(X1)] {a}");
  w.m.Emplace(CstType::function, "[a∈ℬ(R1), b∈R1] a∪{b}");
  w.m.Emplace(CstType::function, "[a∈ℬ(X1)] D{b∈a | ∃c∈a c≠b}");
  w.m.Emplace(CstType::function, "[a∈ℬ(X1), b∈ℬ(X1)] D{c∈a | ∃d∈b d=c}");
  w.m.Emplace(CstType::function, "[a∈ℬ(X1)] D{b∈a×a | a=a & pr1(b)∈a}");
  w.m.Emplace(CstType::function, "[a∈ℬ(X1×X1)] D{b∈Pr1(a) | ∃c∈a pr1(c)=b}");
  w.m.Emplace(CstType::function, "[a∈ℬ(R1)] ℬ(a)\\{a}");
  w.m.Emplace(CstType::predicate, "[a∈ℬ(X1)] a=X1");
  w.m.Emplace(CstType::axiom, "X1=X1");
  for (int i = 0; i < nx; ++i) w.m.Values().AddBasicElement(w.x1, "x" + std::to_string(i));
  for (int i = 0; i < nc; ++i) w.m.Values().AddBasicElement(w.c1, "c" + std::to_string(i));
  (void)w.m.Values().SetStructureData(w.s1, s1v);
  (void)w.m.Values().SetStructureData(w.s2, s2v);
  auto* m = &w.m;
  w.interp = std::make_unique<Interpreter>(m->RSLang(), m->RSLang().ASTContext(),
    [m](const std::string& n) -> std::optional<StructuredData> { auto uid = m->Core().FindAlias(n); if (!uid) return std::nullopt; return m->Values().SDataFor(*uid); });
}
struct InterpData { int nx, nc; StructuredData s1, s2; };
static const std::vector<InterpData>& Interpretations() {
  static const std::vector<InterpData> d = {
    { 2, 3, S({ Factory::TupleV({ 1, 1 }), Factory::TupleV({ 1, 2 }) }), S({ Factory::EmptySet(), Factory::SetV({ 1 }) }) },
    { 1, 2, Factory::EmptySet(), S({ Factory::SetV({ 1 }) }) },
    { 3, 1, S({ Factory::TupleV({ 2, 1 }), Factory::TupleV({ 3, 3 }), Factory::TupleV({ 1, 2 }) }), S({ Factory::SetV({ 1, 2 }), Factory::SetV({ 2, 3 }), Factory::SetV({ 3 }) }) },
    { 3, 2, S({ Factory::TupleV({ 1, 2 }), Factory::TupleV({ 2, 3 }) }), S({ Factory::SetV({ 1 }), Factory::SetV({ 2, 3 }) }) } };
  return d;
}
static std::vector<std::unique_ptr<World>>& Worlds() {
  static std::vector<std::unique_ptr<World>> w;
  if (w.empty()) {
    for (const auto& d : Interpretations()) { w.emplace_back(std::make_unique<World>()); Setup(*w.back(), d.nx, d.nc, d.s1, d.s2); }
  }
  return w;
}
// a fifth model whose data is replaced before every evaluation (its interpreter lives on): what an evaluation returns must
// depend on the current data only, whatever was evaluated - successfully or not - under the previous data
static World& Rotating() {
  static std::unique_ptr<World> w;
  if (!w) { w = std::make_unique<World>(); const auto& d = Interpretations()[0]; Setup(*w, d.nx, d.nc, d.s1, d.s2); }
  return *w;
}
static void Retarget(World& w, size_t k) {
  const auto& d = Interpretations()[k];
  w.m.Values().ResetDataFor(w.x1); for (int i = 0; i < d.nx; ++i) w.m.Values().AddBasicElement(w.x1, "x" + std::to_string(i));
  w.m.Values().ResetDataFor(w.c1); for (int i = 0; i < d.nc; ++i) w.m.Values().AddBasicElement(w.c1, "c" + std::to_string(i));
  (void)w.m.Values().SetStructureData(w.s1, d.s1);
  (void)w.m.Values().SetStructureData(w.s2, d.s2);
}
static std::string AsciiType(std::string s) {
  auto rep = [&](const std::string& a, const std::string& b) { size_t p; while ((p = s.find(a)) != std::string::npos) s.replace(p, a.size(), b); };
  rep("ℬ", "B"); rep("×", "*"); return s;
}

// ------------------------------------------------------------------ C06: parse a rendering, compare tree and ranges
static bool CheckParse(const json& c, const json& rend, bool math, int spacing, const json& expectTree, vh::Report& r, std::string& textOut) {
  const auto t = rstext::Assemble(rend["t"], math, spacing);
  textOut = t.text;
  const json wit = { {"e", c["e"]}, {"text", t.text}, {"syntax", math ? "MATH" : "ASCII"}, {"spacing", spacing} };
  // one parser object serves every text of the run (as an application would use it): what it reports for a text must not
  // depend on the texts parsed before
  static Parser parser;
  ++r.checks;
  if (!parser.Parse(t.text, math ? Syntax::MATH : Syntax::ASCII)) { r.Violation("C06", "valid-rendering-rejected", wit); return false; }
  std::vector<std::pair<int, int>> ranges;
  const json got = rstext::Project(parser.AST().Root(), &ranges);
  if (got != (math ? expectTree : rstext::TranslitTree(expectTree))) { r.Violation("C06", "tree", wit, { {"got", got} }); return false; }
  const auto& sp = rend["sp"];
  if (ranges.size() != sp.size()) { r.Violation("C06", "ranges.count", wit, { {"got", ranges.size()}, {"expected", sp.size()} }); return false; }
  for (size_t i = 0; i < ranges.size(); ++i) {
    const int a = t.start[sp[i]["a"].get<size_t>() - 1], b = t.finish[sp[i]["b"].get<size_t>() - 1];
    if (ranges[i].first != a || ranges[i].second != b) {
      r.Violation("C06", "ranges", wit, { {"node", i}, {"got", { ranges[i].first, ranges[i].second }}, {"expected", { a, b }} }); return false; }
  }
  // innermost node for a cursor range: the answer must contain the range and nothing smaller may
  for (size_t i = 0; i < ranges.size(); ++i) {
    const StrRange q{ ranges[i].first, ranges[i].second };
    const auto found = FindMinimalNode(parser.AST().Root(), q);
    if (!found.has_value()) { r.Violation("C06", "FindMinimalNode.none", wit, { {"range", { q.start, q.finish }} }); return false; }
    const auto fr = (*found)->pos;
    bool ok = fr.start <= q.start && fr.finish >= q.finish;
    for (auto& o : ranges) if (o.first <= q.start && o.second >= q.finish && (o.second - o.first) < fr.length()) ok = false;
    if (!ok) { r.Violation("C06", "FindMinimalNode", wit, { {"range", { q.start, q.finish }}, {"got", { fr.start, fr.finish }} }); return false; }
    // innermost also among nodes of equal range (a wrapper over a single child): no child of the answer may contain the range
    for (int k = 0; k < found->ChildrenCount(); ++k) if ((*found)(static_cast<Index>(k)).pos.Contains(q)) {
      r.Violation("C06", "FindMinimalNode.not-innermost", wit, { {"range", { q.start, q.finish }}, {"got", { fr.start, fr.finish }} }); return false; }
  }
  return true;
}

// ------------------------------------------------------------------ C05: print the parsed tree and re-parse
static void CheckPrint(const json& c, const std::string& text, bool math, vh::Report& r) {
  Parser p1;
  if (!p1.Parse(text, math ? Syntax::MATH : Syntax::ASCII)) return;
  for (const bool toMath : { true, false }) {
    const auto syn = toMath ? Syntax::MATH : Syntax::ASCII;
    const std::string printed = Generator::FromTree(p1.AST(), syn);
    const json wit = { {"e", c["e"]}, {"text", text}, {"to", toMath ? "MATH" : "ASCII"}, {"printed", printed} };
    ++r.checks;
    Parser p2;
    if (!p2.Parse(printed, syn)) { r.Violation("C05", "printed-text-rejected", wit); continue; }
    // equal tree; in ASCII output Greek letters of local names follow the fixed transliteration, nothing else differs
    const json orig = rstext::Project(p1.AST().Root());
    const json expect = toMath ? orig : rstext::TranslitTree(orig);
    if (rstext::Project(p2.AST().Root()) != expect || (expect == orig && !(p2.AST() == p1.AST())))
      r.Violation("C05", "reparsed-tree-differs", wit, { {"got", rstext::Project(p2.AST().Root())} });
  }
  // converting to the other syntax and back preserves the tree; converting twice changes nothing more
  const auto own = math ? Syntax::MATH : Syntax::ASCII, other = math ? Syntax::ASCII : Syntax::MATH;
  const std::string conv = ConvertTo(text, other);
  const json wit = { {"e", c["e"]}, {"text", text}, {"from", math ? "MATH" : "ASCII"}, {"converted", conv} };
  ++r.checks;
  const std::string back = ConvertTo(conv, own);
  Parser p3;
  if (!p3.Parse(back, own) || rstext::TranslitTree(rstext::Project(p3.AST().Root())) != rstext::TranslitTree(rstext::Project(p1.AST().Root())))
    r.Violation("C05", "ConvertTo.roundtrip", wit, { {"back", back} });
  if (const std::string twice = ConvertTo(conv, other); twice != conv) r.Violation("C05", "ConvertTo.not-idempotent", wit, { {"twice", twice} });
}

static void Handle(const json& c, vh::Report& r) {
  const json tree = rstext::Materialise(c["e"]);
  const bool lone = tree["ch"].empty();
  std::string minMath, minAscii, tmp;
  // ---- parsing: 3 parenthesisations (necessary / every redundant pair / every pair doubled) x 2 syntaxes x spacings
  if (On("C06") || On("C05")) {
    for (const char* key : { "r0", "r1", "r2" }) for (const bool math : { true, false }) for (int sp = 0; sp < 4; ++sp) {
      if (key[1] == '2' && (!c.contains("r2") || c["r2"]["t"] == c["r1"]["t"] || sp > 1)) continue;   // doubled parentheses: only where there are any
      if (sp == 2 && (r.cases % 4) != 0) continue;     // tabs / double spaces on a quarter of the cases
      if (sp == 3 && !math) continue;                  // newlines: MATH only (advances the lexer's line base)
      std::string text;
      const bool ok = CheckParse(c, c[key], math, sp, tree, r, text);
      if (ok && On("C05") && sp == 0) CheckPrint(c, text, math, r);
    }
  }
  minMath = rstext::Assemble(c["r0"]["t"], true, 0).text; minAscii = rstext::Assemble(c["r0"]["t"], false, 0).text;
  const std::string maxMath = rstext::Assemble(c["r1"]["t"], true, 1).text;
  // ---- typing
  const std::string sty = c["ty"]; const bool sbad = sty.rfind("BAD", 0) == 0;
  if (sty == "SKIP") { r.NonTrivial(c["e"].dump()); if ((r.cases % 997) == 5) r.Sample({ {"text", minMath}, {"ascii", minAscii} }); return; }   // syntax-only case
  auto& worlds = Worlds();
  static auto auditor = worlds[0]->m.RSLang().MakeAuditor();
  bool accepted = false; ExpressionType implType;
  for (const auto& [text, syn] : { std::pair<std::string, Syntax>{ minMath, Syntax::MATH }, { minAscii, Syntax::ASCII }, { maxMath, Syntax::MATH } }) {
    if (!(On("C03") || On("C01") || On("C02"))) break;
    const json wit = { {"e", c["e"]}, {"text", text}, {"syntax", syn == Syntax::MATH ? "MATH" : "ASCII"} };
    ++r.checks;
    const bool ok = auditor->CheckExpression(text, syn);
    if (!auditor->IsParsed()) { if (On("C06")) r.Violation("C06", "auditor-parse-failed", wit); continue; }
    std::string ty = "BAD";
    if (ok) { implType = auditor->GetType(); accepted = true; ty = std::holds_alternative<LogicT>(implType) ? "LOGIC" : AsciiType(std::get<Typification>(implType).ToString()); }
    if (On("C03")) {
      if (ok == sbad) r.Violation("C03", ok ? "accepted-but-rules-reject" : "rejected-but-rules-accept", wit, { {"impl", ty}, {"spec", sty} });
      else if (ok && ty != sty) r.Violation("C03", "typification", wit, { {"impl", ty}, {"spec", sty} });
      // a function definition also reports its declared argument list
      if (ok && !sbad && c.value("isFunc", false)) {
        json args = json::array(); for (const auto& a : auditor->GetDeclarationArgs()) args.push_back({ {"name", a.name}, {"type", AsciiType(a.type.ToString())} });
        if (args != c["args"]) r.Violation("C03", "declared-arguments", wit, { {"impl", args}, {"spec", c["args"]} });
      }
      // the value-class audit of an accepted expression: value / property / improper use of a property
      if (ok && !sbad && ty == sty && c.contains("vc")) {
        const bool vok = auditor->CheckValue();
        const std::string vc = !vok ? "invalid" : auditor->GetValueClass() == ValueClass::value ? "value" : auditor->GetValueClass() == ValueClass::props ? "props" : "invalid";
        if (vc != c["vc"].get<std::string>()) r.Violation("C03", "value-class", wit, { {"impl", vc}, {"spec", c["vc"]} });
      }
      if (!ok) {   // an ill-typed expression is rejected with >= 1 critical error positioned inside the expression
        bool critical = false, inside = true; const int len = syn == Syntax::MATH ? static_cast<int>(vh::CodePoints(text).size()) : static_cast<int>(text.size());
        for (const auto& e : auditor->Errors().All()) { if (e.IsCritical()) critical = true; if (e.position < 0 || e.position > len) inside = false; }
        if (!critical) r.Violation("C03", "rejected-without-critical-error", wit);
        if (!inside) r.Violation("C03", "error-position-outside", wit);
      }
    }
    if (!ok || c.value("isFunc", false)) continue;       // a function definition has no value of its own
    // ---- evaluation under the three interpretations
    if (!(On("C01") || On("C02"))) continue;
    if (sbad) {
      // accepted by the implementation although the rules reject (a C03 matter): C02 still speaks about it - whatever the
      // checker accepts must evaluate without fault to a value of the reported type; there is no value oracle
      if (!On("C02")) continue;
      for (size_t k = 0; k < worlds.size(); ++k) {
        ++r.checks; r.Count("evaluations.no-oracle");
        const auto res = worlds[k]->interp->Evaluate(text, syn);
        json w2 = wit; w2["interp"] = k; w2["specVerdict"] = sty;
        if (!res.has_value()) { for (const auto& e : worlds[k]->interp->Errors().All()) if (e.eid == static_cast<uint32_t>(ValueEID::unknownError)) r.Violation("C02", "unknownError", w2); continue; }
        const bool isBool = std::holds_alternative<bool>(*res), logic = std::holds_alternative<LogicT>(implType);
        if (logic != isBool) r.Violation("C02", "truth-value-vs-type", w2);
        else if (!isBool && !rsconv::CompatDeep(std::get<StructuredData>(*res), std::get<Typification>(implType)))
          r.Violation("C02", "value-not-of-reported-type", w2, { {"got", rsconv::ValueToJson(std::get<StructuredData>(*res))}, {"type", std::get<Typification>(implType).ToString()} });
      }
      continue;
    }
    for (size_t k = 0; k < worlds.size(); ++k) {
      const auto& sv = c["vals"][k]; const auto& kv = c["kvals"][k];
      // recursions the model cannot finish within its fuel: the value is not compared, but the call must still come back
      const bool noOracle = (!sv["ok"].get<bool>() && sv["why"] == "limit") || (!kv["ok"].get<bool>() && kv["why"] == "limit");
      ++r.checks; r.Count("evaluations");
      const auto res = worlds[k]->interp->Evaluate(text, syn);
      if (noOracle) { r.Count("skipped.spec-fuel"); continue; }
      json w2 = wit; w2["interp"] = k;
      if (!res.has_value()) {
        bool unknown = false; json codes = json::array();
        for (const auto& e : worlds[k]->interp->Errors().All()) { codes.push_back(e.eid); if (e.eid == static_cast<uint32_t>(ValueEID::unknownError)) unknown = true; }
        if (On("C02") && unknown) r.Violation("C02", "unknownError", w2, { {"codes", codes} });
        if (On("C01") && sv["ok"].get<bool>()) r.Violation("C01", "fails-but-value-defined", w2, { {"codes", codes}, {"spec", sv["v"]} });
        continue;
      }
      json iv; bool isBool = std::holds_alternative<bool>(*res);
      if (isBool) iv = std::get<bool>(*res); else iv = rsconv::ValueToJson(std::get<StructuredData>(*res));
      if (On("C02")) {
        const bool logic = std::holds_alternative<LogicT>(implType);
        if (logic != isBool) r.Violation("C02", "truth-value-vs-type", w2, { {"got", iv} });
        else if (!isBool && !rsconv::CompatDeep(std::get<StructuredData>(*res), std::get<Typification>(implType)))
          r.Violation("C02", "value-not-of-reported-type", w2, { {"got", iv}, {"type", std::get<Typification>(implType).ToString()} });
      }
      if (On("C01")) {
        if (!kv["ok"].get<bool>()) r.Violation("C01", "value-but-evaluation-undefined", w2, { {"got", iv}, {"why", kv["why"]} });
        else if (isBool ? (iv != kv["v"]) : !rsconv::SameValue(iv, kv["v"])) r.Violation("C01", "value", w2, { {"got", iv}, {"spec", kv["v"]} });
      }
    }
    // ---- the same text on the model whose data has just been replaced (interpretation chosen by the running count of evaluations)
    if (On("C01")) {
      static size_t turn = 0; const size_t k = ++turn % worlds.size();
      const auto& sv = c["vals"][k]; const auto& kv = c["kvals"][k];
      const bool noOracle = (!sv["ok"].get<bool>() && sv["why"] == "limit") || (!kv["ok"].get<bool>() && kv["why"] == "limit");
      auto& rot = Rotating(); Retarget(rot, k);
      ++r.checks; r.Count("evaluations.after-data-change");
      const auto res = rot.interp->Evaluate(text, syn);
      json w2 = wit; w2["interp"] = k; w2["afterDataChange"] = true;
      if (noOracle) { }
      else if (!res.has_value()) { if (sv["ok"].get<bool>()) r.Violation("C01", "fails-but-value-defined (after a data change)", w2, { {"spec", sv["v"]} }); }
      else {
        json iv; const bool isBool = std::holds_alternative<bool>(*res);
        if (isBool) iv = std::get<bool>(*res); else iv = rsconv::ValueToJson(std::get<StructuredData>(*res));
        if (!kv["ok"].get<bool>()) r.Violation("C01", "value-but-evaluation-undefined (after a data change)", w2, { {"got", iv}, {"why", kv["why"]} });
        else if (isBool ? (iv != kv["v"]) : !rsconv::SameValue(iv, kv["v"])) r.Violation("C01", "value (after a data change)", w2, { {"got", iv}, {"spec", kv["v"]} });
      }
    }
  }
  if (!lone && !sbad) r.NonTrivial(c["e"].dump());
  if ((r.cases % 9973) == 5) r.Sample({ {"text", minMath}, {"ty", sty}, {"kvals", c["kvals"]} });
  (void)accepted; (void)tmp;
}

int main(int argc, char** argv) {
  vh::Args args(argc, argv);
  { std::stringstream ss(args.get("props")); std::string p; while (std::getline(ss, p, ',')) if (!p.empty()) g_props.insert(p); }
  Worlds();   // built once in the parent, inherited by the forked batch workers
  vh::IsoOptions iso; iso.batch = 500; iso.watchdogSeconds = 300;   // five evaluations that run into the iteration limit take 5-15 s under ASan (vp check 8: > 10 s)
  // a fault while an accepted expression is evaluated is C02's; expressions the rules reject are evaluated only when the
  // implementation accepts them, so under --props C02 every fault is attributed to C02
  iso.faultPropertyOf = [](const json& c) { return std::string((c["ty"].get<std::string>().rfind("BAD", 0) == 0 && !g_props.count("C02")) ? "C04" : "C02"); };
  return vh::Main(argc, argv, Handle, true, iso);
}
