// Schema properties against tla/Schema.tla (histories from Gen_Schema):
//   C09 identity / ordering invariants, refused operations change nothing, tracked constituents are protected
//   C07 what the schema reports after the history == from-scratch analysis ((i) the specification's, (ii) a reloaded copy)
//   C08 renamings rewrite all and only the mentions (content equality with the specification after rename operations)
//   C10 save / load through JSON is lossless and stable
#include "schema_common.hpp"
#include "ccl/ops/RSOperations.h"

static std::set<std::string> g_props;
static bool On(const char* p) { return g_props.empty() || g_props.count(p) > 0; }

// ------------------------------------------------------------------ C13: extraction operations
static void CheckOneExtraction(const RSForm& src, const json& srcProj, const char* opName, const json& sel, bool specDefined, const json& expect,
                               bool implDefined, const std::unique_ptr<RSForm>& res, const json& wit, vh::Report& r) {
  ++r.checks;
  const json ctx = { {"operation", opName}, {"selection", sel} };
  if (implDefined != (res != nullptr)) { r.Violation("C13", std::string(opName) + ": Execute disagrees with IsCorrectlyDefined", wit, ctx); return; }
  if (specDefined && !implDefined) { r.Violation("C13", std::string(opName) + ": well-formed selection refused", wit, ctx); return; }
  if (!specDefined && implDefined) { r.Drift("C13", std::string(opName) + ": selection accepted that the model refuses", wit, ctx); return; }
  if (!res) return;
  std::map<EntityUID, const json*> srcItem; for (const auto& it : srcProj["items"]) srcItem[it["uid"].get<EntityUID>()] = &it;
  // members and order
  json members = json::array(); for (const auto u : res->List()) members.push_back(u);
  if (members != expect["members"]) {
    std::set<int> a, b; for (auto& x : members) a.insert(x.get<int>()); for (auto& x : expect["members"]) b.insert(x.get<int>());
    json info = ctx; info["got"] = members; info["expected"] = expect["members"];
    if (a == b) r.Violation("C13", std::string(opName) + ": relative order not kept", wit, info);
    else { bool missing = false; for (int x : b) if (!a.count(x)) missing = true; r.Violation("C13", std::string(opName) + (missing ? ": constituent missing from the result" : ": constituent that does not belong to the result"), wit, info); }
    return;
  }
  std::map<std::string, std::string> ren; std::set<std::string> newNames;
  for (const auto& it : expect["items"]) { if (it["from"] != it["alias"]) ren[it["from"].get<std::string>()] = it["alias"].get<std::string>(); newNames.insert(it["alias"].get<std::string>()); }
  size_t i = 0;
  for (const auto u : res->List()) {
    const auto& e = expect["items"][i++]; const auto& rs = res->GetRS(u); const auto& p = res->GetParse(u); const json& s = *srcItem.at(u);
    json info = ctx; info["alias"] = e["from"]; info["newAlias"] = rs.alias;
    if (rs.alias != e["alias"].get<std::string>()) { r.Drift("C13", std::string(opName) + ": alias numbering differs from model", wit, info); return; }
    if (rs.definition != DefText(e["d"])) { info["got"] = rs.definition; info["expected"] = DefText(e["d"]); r.Violation("C13", std::string(opName) + ": definition not rewritten to the new names", wit, info); continue; }
    // no name that resolved in the source dangles in the result
    for (const auto d : src.RSLang().Graph().InputsFor(u)) if (!res->Contains(d)) { info["dangling"] = src.GetRS(d).alias; r.Violation("C13", std::string(opName) + ": result mentions a constituent that was left behind", wit, info); }
    const bool ok = p.status == semantic::ParsingStatus::VERIFIED;
    const std::string type = p.exprType.has_value() ? (std::holds_alternative<rslang::LogicT>(*p.exprType) ? std::string("LOGIC") : AsciiType(std::get<rslang::Typification>(*p.exprType).ToString())) : std::string{};
    if (ok != s["ok"].get<bool>()) {
      info["source"] = s["ok"]; info["result"] = ok;
      if (expect["captures"].get<bool>()) r.Violation("C13", "dangling name captured by the alias renumbering", wit, info);
      else r.Violation("C13", std::string(opName) + ": correctness status not kept", wit, info);
    } else if (ok && type != RenameAliases(s["type"].get<std::string>(), ren)) {
      info["source"] = s["type"]; info["result"] = type; r.Violation("C13", std::string(opName) + ": typification not kept", wit, info);
    }
  }
}
static void CheckExtraction(const RSForm& form, const json& proj, const json& ops, const json& wit, vh::Report& r) {
  for (const auto& o : ops) {
    SetOfEntities sel; for (const auto& u : o["sel"]) sel.insert(u.get<EntityUID>());
    { ops::OpExtractBasis op{ form, sel }; const bool d = op.IsCorrectlyDefined(); auto res = op.Execute();
      CheckOneExtraction(form, proj, "basis", o["sel"], o["basisDefined"].get<bool>(), o["basis"], d, res, wit, r); }
    { ops::OpMaxPart op{ form, sel }; const bool d = op.IsCorrectlyDefined(); auto res = op.Execute();
      CheckOneExtraction(form, proj, "maxpart", o["sel"], o["maxDefined"].get<bool>(), o["maxpart"], d, res, wit, r); }
  }
  // the source is never modified by an extraction
  if (Project(form) != proj) r.Violation("C13", "extraction modified its source schema", wit, {});
}

static void Handle(const json& c, vh::Report& r) {
  g_uids.clear();
  auto form = std::make_unique<RSForm>();
  std::set<EntityUID> pool; bool renames = false;
  const json wit = { {"hist", c["hist"]} };
  size_t step = 0;
  for (const auto& op : c["hist"]) {
    ++step;
    const std::string o = op["op"]; const EntityUID u = op["u"].get<EntityUID>();
    r.Count("call." + o);
    if (u != 0) pool.insert(u);
    const json before = (On("C09")) ? Project(*form) : json();
    const bool wasTracked = u != 0 && form->Mods().IsTracking(u);
    bool refusable = false, result = true;
    g_uids.clear();
    if (o == "Emplace") { g_uids.push_back(op["fresh"].get<EntityUID>()); pool.insert(op["fresh"].get<EntityUID>());
      const auto got = form->Emplace(KindOf(op["k"]), DefText(op["d"]));
      if (got != op["fresh"].get<EntityUID>()) r.Drift("C09", "Emplace returned another identifier", wit, { {"step", step}, {"got", got} }); }
    else if (o == "InsertCopy") { const auto& rj = op["rec"][0]; g_uids.push_back(op["fresh"].get<EntityUID>()); pool.insert(op["fresh"].get<EntityUID>()); pool.insert(rj["uid"].get<EntityUID>());
      // the four overloads (record, constituent of another schema, and both bulk forms with one element) have one meaning
      const auto rec = RecordOf(rj); const int variant = static_cast<int>((c["hist"].size() + step) % 4);
      auto donor = std::make_unique<RSForm>();
      bool viaDonor = false;
      if (variant == 1 || variant == 3) { const auto saved = g_uids; g_uids.clear(); const auto du = donor->InsertCopy(rec); g_uids = saved;
        viaDonor = du == rec.uid && donor->GetRS(du).alias == rec.alias; }          // the donor keeps identifier and alias only when the alias is well-formed
      if (viaDonor && variant == 1) { (void)form->InsertCopy(rec.uid, donor->Core()); r.Count("insertcopy.from-schema"); }
      else if (viaDonor && variant == 3) { (void)form->InsertCopy(VectorOfEntities{ rec.uid }, donor->Core()); r.Count("insertcopy.bulk-from-schema"); }
      else if (variant == 2) { (void)form->InsertCopy(std::vector<ConceptRecord>{ rec }); r.Count("insertcopy.bulk-records"); }
      else { (void)form->InsertCopy(rec); r.Count("insertcopy.record"); }
      renames = true; }
    else if (o == "InsertBulk") {      // several records in one call, through either bulk overload
      std::vector<ConceptRecord> recs; for (const auto& rj : op["rec"]) { recs.push_back(RecordOf(rj)); pool.insert(rj["uid"].get<EntityUID>()); }
      std::vector<EntityUID> fr; for (EntityUID f = 91; f <= 96; ++f) { pool.insert(f); if (!form->Contains(f)) fr.push_back(f); }     // the identifier generator's next free values
      auto donor = std::make_unique<RSForm>(); bool viaDonor = (c["hist"].size() + step) % 2 == 1;
      if (viaDonor) { g_uids.clear(); VectorOfEntities ids; for (const auto& rec : recs) { const auto du = donor->InsertCopy(rec); if (du != rec.uid || donor->GetRS(du).alias != rec.alias) viaDonor = false; ids.push_back(du); }
        if (viaDonor) { g_uids.assign(fr.begin(), fr.end()); (void)form->InsertCopy(ids, donor->Core()); r.Count("insertbulk.from-schema"); } }
      if (!viaDonor) { g_uids.assign(fr.begin(), fr.end()); (void)form->InsertCopy(recs); r.Count("insertbulk.records"); }
      renames = true; }
    else if (o == "Erase") { refusable = true; result = form->Erase(u); if (wasTracked && result) r.Violation("C09", "tracked constituent erased", wit, { {"step", step} }); }
    else if (o == "SetAlias") { refusable = true; result = form->SetAliasFor(u, op["a"].get<std::string>(), op["b"].get<bool>()); renames = true; }
    else if (o == "SetExpression") { refusable = true; result = form->SetExpressionFor(u, DefText(op["d"]));
      if (wasTracked && result) r.Violation("C09", "formal definition of a tracked constituent edited", wit, { {"step", step} }); }
    else if (o == "SetConvention") { refusable = true; result = form->SetConventionFor(u, Words(op["w"])); }
    else if (o == "SetTerm") { refusable = true; result = form->SetTermFor(u, Atoms(op["q"])); }
    else if (o == "SetText") { refusable = true; result = form->SetDefinitionFor(u, Atoms(op["q"])); }
    else if (o == "SetTermForm") { refusable = true; result = form->SetTermFormFor(u, op["w"][0].get<std::string>(), lang::Morphology{ op["a"].get<std::string>() }); }
    else if (o == "MoveBefore") { refusable = true; auto it = form->List().begin(); for (int k = 1; k < op["p"].get<int>() && it != form->List().end(); ++k) ++it; result = form->MoveBefore(u, it); }
    else if (o == "ResetAliases") { form->ResetAliases(); renames = true; }
    else if (o == "Track") { semantic::TrackingFlags fl{}; fl.allowEdit = op["b"].get<bool>(); form->Mods().Track(u, fl); }
    else if (o == "StopTracking") form->Mods().StopTracking(u);
    else if (o == "SaveLoad") { form = LoadForm(Save(*form)); }
    else if (o == "DeleteDuplicates") { (void)form->Ops().DeleteDuplicates(); renames = true; }
    if (On("C09")) {
      ++r.checks;
      if (refusable && !result) {
        // SetExpressionFor reports "no real change" (same tree) with false although the text was stored: only the analysis must be unchanged then
        json after = Project(*form);
        if (o == "SetExpression" && !wasTracked) { for (auto& it : after["items"]) it.erase("def"); json b2 = before; for (auto& it : b2["items"]) it.erase("def"); if (after != b2) r.Violation("C09", "refused operation changed the schema", wit, { {"step", step}, {"op", o} }); }
        else if (after != before) r.Violation("C09", "refused operation changed the schema", wit, { {"step", step}, {"op", o} });
      }
      const auto inv = Invariants(*form, pool);
      if (!inv.empty()) { r.Violation("C09", "invariant: " + inv, wit, { {"step", step} }); break; }
    }
  }
  const json got = Project(*form);
  const auto& obs = c["obs"];
  std::string diffContent;
  // ---- content conformance with the specification (order, aliases, kinds, definitions, conventions, texts, tracking)
  {
    ++r.checks;
    std::string diff;
    if (got["order"] != obs["order"]) diff = "order";
    for (size_t i = 0; diff.empty() && i < obs["items"].size() && i < got["items"].size(); ++i) {
      const auto& e = obs["items"][i]; const auto& g = got["items"][i];
      if (g["alias"] != e["alias"]) diff = "alias"; else if (g["kind"] != e["kind"]) diff = "kind";
      else if (g["def"].get<std::string>() != DefText(e["d"])) diff = "definition"; else if (g["conv"].get<std::string>() != Words(e["conv"])) diff = "convention";
      else if (g["term"].get<std::string>() != Atoms(e["term"])) diff = "term"; else if (g["text"].get<std::string>() != Atoms(e["text"])) diff = "text";
      else if (g["tracked"] != e["tracked"] || g["allow"] != e["allow"]) diff = "tracking";
      else if (e.contains("forms")) { std::map<std::string, std::string> ef, gf; for (auto& p : e["forms"]) ef[lang::Morphology{ p[0].get<std::string>() }.ToString()] = p[1].get<std::string>();
        for (auto& p : g["forms"]) gf[p[0].get<std::string>()] = p[1].get<std::string>(); if (ef != gf) diff = "manual word forms"; }
    }
    diffContent = diff;
    if (!diff.empty()) {
      const bool textual = diff == "definition" || diff == "convention" || diff == "term" || diff == "text";
      if (renames && textual && On("C08")) r.Violation("C08", "content after renaming: " + diff, wit, { {"got", got}, {"expected", obs} });
      else r.Drift("C09", "content differs from model: " + diff, wit, { {"got", got} });
    }
  }
  // ---- C13: basis and maximal part of every selection against SchemaOps.tla
  if (On("C13") && c.contains("ops") && diffContent.empty()) CheckExtraction(*form, got, c["ops"], wit, r);
  // ---- C07 (i): reported analysis == from-scratch analysis of the specification
  if (On("C07") && got["order"] == obs["order"]) {
    for (size_t i = 0; i < obs["items"].size(); ++i) {
      const auto& e = obs["items"][i]; const auto& g = got["items"][i];
      ++r.checks;
      if (g["alias"] != e["alias"] || g["def"].get<std::string>() != DefText(e["d"])) continue;     // content drift already reported
      json ed = e["deps"]; std::sort(ed.begin(), ed.end());
      if (g["ok"] != e["ok"]) r.Violation("C07", "status differs from from-scratch analysis", wit, { {"alias", e["alias"]}, {"got", g["ok"]}, {"expected", e["ok"]} });
      else if (e["ok"].get<bool>() && g["type"] != e["type"]) r.Violation("C07", "typification differs from from-scratch analysis", wit, { {"alias", e["alias"]}, {"got", g["type"]}, {"expected", e["type"]} });
      else if (e["ok"].get<bool>() && g["args"] != e["args"]) r.Violation("C07", "arguments differ from from-scratch analysis", wit, { {"alias", e["alias"]}, {"got", g["args"]}, {"expected", e["args"]} });
      else if (e["ok"].get<bool>() && e.contains("vc")) { static const char* names[] = { "invalid", "value", "props" }; const std::string gv = names[g["valueClass"].get<int>() % 3];
        if (gv != e["vc"].get<std::string>()) r.Violation("C07", "value class differs from from-scratch analysis", wit, { {"alias", e["alias"]}, {"got", gv}, {"expected", e["vc"]} }); }
      if (g["deps"] != ed) r.Violation("C07", "dependency edges differ", wit, { {"alias", e["alias"]}, {"got", g["deps"]}, {"expected", ed} });
    }
  }
  // ---- C07 (ii) + C10: a copy reloaded from the saved document reports the same, and saving it again gives the same document
  if (On("C07") || On("C10")) {
    ++r.checks;
    const JSON j1 = Save(*form);
    std::unique_ptr<RSForm> copy;
    try { copy = LoadForm(j1); } catch (const std::exception& e) { r.Violation("C10", "saved document does not load", wit, { {"what", e.what()} }); copy = nullptr; }
    if (copy) {
      json reloaded = Project(*copy);
      json mine = got;
      if (form->Texts().TermGraph().HasLoop()) {      // resolved texts are compared only when term references are acyclic (as the statement says)
        for (auto* side : { &reloaded, &mine }) for (auto& it : (*side)["items"]) { it.erase("termStr"); it.erase("textStr"); }
      }
      if (reloaded != mine) {
        // which field?  (ii) compares everything the schema reports incl. value class, tree text, resolved texts
        std::string field = "order";
        for (size_t i = 0; i < mine["items"].size() && i < reloaded["items"].size(); ++i) for (auto& [k, v] : mine["items"][i].items()) if (reloaded["items"][i][k] != v) { field = mine["items"][i]["alias"].get<std::string>() + "." + k; goto found; }
        found:
        const bool analysis = field.find(".ok") != std::string::npos || field.find(".status") != std::string::npos || field.find(".type") != std::string::npos || field.find(".args") != std::string::npos ||
                              field.find(".valueClass") != std::string::npos || field.find(".ast") != std::string::npos || field.find(".deps") != std::string::npos || field.find("Str") != std::string::npos;
        if (analysis) { if (On("C07")) r.Violation("C07", "incremental state differs from a reloaded copy: " + field.substr(field.find('.') == std::string::npos ? 0 : field.find('.') + 1), wit, { {"field", field}, {"incremental", got}, {"reloaded", reloaded} }); }
        else if (On("C10")) r.Violation("C10", "content lost or changed by save/load: " + field, wit, { {"field", field} });
      }
      if (On("C10")) {
        const JSON j2 = Save(*copy);
        if (j1 != j2) {
          // classify: do the documents differ only in the cached resolution of texts while term references are cyclic?
          json a = json::parse(j1.dump()), b = json::parse(j2.dump());
          auto strip = [](json& d) { for (auto& it : d["items"]) { if (it.contains("term")) it["term"].erase("resolved"); if (it.contains("definition") && it["definition"].contains("text")) it["definition"]["text"].erase("resolved"); } };
          json a2 = a, b2 = b; strip(a2); strip(b2);
          if (a2 == b2 && form->Texts().TermGraph().HasLoop())
            r.Violation("C10", "cached resolution of cyclic term references differs after reload", wit, {});
          else r.Violation("C10", "saving the loaded schema gives a different document", wit, { {"first", a}, {"second", b} });
        }
      }
    }
  }
  if (c["hist"].size() >= 2) r.NonTrivial(c["hist"].dump());
  if ((r.cases % 9973) == 7) r.Sample(c);
}

// ------------------------------------------------------------------ recording (direction B): long random histories
#include <random>
static json TLeaf(const char* id, const std::string& name) { return { {"id", id}, {"s", name}, {"n", 0}, {"ix", json::array()}, {"ch", json::array()} }; }
static json TNode(const char* id, json ch) { return { {"id", id}, {"s", ""}, {"n", 0}, {"ix", json::array()}, {"ch", std::move(ch)} }; }
static const json kNoDef = { {"id", "NODEF"}, {"s", ""}, {"n", 0}, {"ix", json::array()}, {"ch", json::array()} };
struct Def { json tree; std::string text; };
// definition templates over two names (the specification's tree and its MATH text)
static Def MakeDef(int k, const std::string& n, const std::string& m) {
  const json N = TLeaf("GLOBAL", n), M = TLeaf("GLOBAL", m), a = TLeaf("LOCAL", "a");
  switch (k) {
  case 0: return { kNoDef, "" };
  case 1: return { N, n };
  case 2: return { TNode("UNION", { N, M }), n + "∪" + m };
  case 3: return { TNode("SET_MINUS", { N, M }), n + "\\" + m };
  case 4: return { TNode("BOOLEAN", { TNode("DECART", { N, M }) }), "ℬ(" + n + "×" + m + ")" };
  case 5: return { TNode("EQUAL", { N, M }), n + "=" + m };
  case 6: return { TNode("FUNCDEF", { TNode("ARGS", { TNode("ARG", { a, TNode("BOOLEAN", { N }) }) }), TNode("UNION", { a, M }) }), "[a∈ℬ(" + n + ")] a∪" + m };
  case 7: { json c = TNode("CALL", { N }); c["s"] = m; return { c, m + "[" + n + "]" }; }
  case 8: return { TNode("BAD", { N }), n + " ∪" };
  default: return { TNode("UNION", { N, TNode("DECART", { N, M }) }), n + "∪(" + n + "×" + m + ")" };
  }
}
static json ObsOf(const RSForm& f) {
  json items = json::array(), order = json::array();
  for (const auto uid : f.List()) { order.push_back(uid);
    const auto& rs = f.GetRS(uid); const auto& p = f.GetParse(uid);
    std::set<int> deps; for (auto d : f.RSLang().Graph().InputsFor(uid)) deps.insert(static_cast<int>(d));
    json args = json::array(); if (p.arguments.has_value()) for (auto& a : *p.arguments) args.push_back({ {"name", a.name}, {"type", AsciiType(a.type.ToString())} });
    items.push_back({ {"uid", uid}, {"alias", rs.alias}, {"kind", KindName(rs.type)}, {"tracked", f.Mods().IsTracking(uid)},
      {"conv", rs.convention}, {"term", f.GetText(uid).term.Text().Raw()}, {"text", f.GetText(uid).definition.Raw()},
      {"ok", p.status == semantic::ParsingStatus::VERIFIED},
      {"type", p.exprType.has_value() ? (std::holds_alternative<rslang::LogicT>(*p.exprType) ? std::string("LOGIC") : AsciiType(std::get<rslang::Typification>(*p.exprType).ToString())) : std::string{}},
      {"args", args}, {"deps", deps},
      {"vc", p.valueClass == rslang::ValueClass::value ? "value" : p.valueClass == rslang::ValueClass::props ? "props" : "invalid"} });
    json fj = json::array(); for (const auto& [fm, text] : f.GetText(uid).term.GetAllManual()) fj.push_back({ {"f", fm.ToString()}, {"t", text} }); items.back()["forms"] = fj; }
  // clause (ii) of C07 / C10: everything the schema reports equals what a copy reloaded from the saved document reports
  bool same = true;
  try { auto copy = LoadForm(Save(f)); json a = Project(f), b = Project(*copy);
    if (f.Texts().TermGraph().HasLoop()) for (auto* side : { &a, &b }) for (auto& it : (*side)["items"]) { it.erase("termStr"); it.erase("textStr"); }
    same = a == b; } catch (const std::exception&) { same = false; }
  return { {"order", order}, {"items", items}, {"sameAsReloaded", same} };
}
static json RandAtoms(std::mt19937& g, const char* const* names, int nn) {
  json q = json::array(); const int n = static_cast<int>(g() % 4);
  for (int i = 0; i < n; ++i) { if (g() % 2) q.push_back({ {"r", true}, {"s", names[g() % nn]} }); else q.push_back({ {"r", false}, {"s", (g() % 2) ? "word" : names[g() % nn]} }); }
  return q;
}
static int Record(const vh::Args& args) {
  const long traces = args.num("record", 5), steps = args.num("steps", 100); const int maxCst = static_cast<int>(args.num("cst", 10));
  std::mt19937 g(static_cast<unsigned>(args.num("seed", 1)));
  std::ofstream out(args.get("trace")); vh::Report rep; long events = 0;
  static const char* kinds[] = { "base", "constant", "structured", "term", "term", "term", "function", "axiom" };
  static const char* names[] = { "X1", "X2", "D1", "D2", "D3", "F1", "S1", "C1", "X9", "A1" };
  static const char* aliases[] = { "X1", "X2", "X3", "D1", "D2", "D3", "D4", "F1", "F2", "S1", "C1", "A1", "Q7", "D01" };
  const bool extract = args.num("extract", 0) != 0;
  const bool equate = args.num("equate", 0) != 0;                      // C12: equations on the live schema, syntheses with a kept copy
  auto typeStr = [](const RSForm& f, EntityUID u) { if (!f.Contains(u)) return std::string{}; const auto& p = f.GetParse(u);
    return p.exprType.has_value() ? (std::holds_alternative<rslang::LogicT>(*p.exprType) ? std::string("LOGIC") : AsciiType(std::get<rslang::Typification>(*p.exprType).ToString())) : std::string{}; };
  const int policy = static_cast<int>(args.num("seed", 1) % 3);       // identifier order: ascending / descending / scattered
  for (long t = 0; t < traces; ++t) {
    out << json{ {"e", "Reset"} }.dump() << std::endl; ++events;
    auto form = std::make_unique<RSForm>(); int counter = 0;
    auto snap = std::make_unique<RSForm>();
    auto fresh = [&]() { ++counter; return static_cast<EntityUID>(policy == 0 ? counter : policy == 1 ? 1000 - counter : (counter * 37) % 997 + 1); };
    auto pick = [&]() -> EntityUID { std::vector<EntityUID> v; for (auto u : form->List()) v.push_back(u); if (v.empty() || g() % 12 == 0) return static_cast<EntityUID>(5000); return v[g() % v.size()]; };
    for (long st = 0; st < steps; ++st) {
      json ev, pendingExt, pendingSyn, pendingEq; const int w = static_cast<int>(g() % 118);   // 97..117: text operations
      const int n = static_cast<int>(form->Core().size());
      g_uids.clear();
      if (equate && n > 0 && g() % 100 < 16) {
        const int which = static_cast<int>(g() % 6);
        std::vector<EntityUID> ids; for (auto u : form->List()) ids.push_back(u);
        // a partner for k: usually one with the same typification (so that tables are admissible often enough), else any
        auto partner = [&](const RSForm& where, EntityUID k) -> EntityUID { std::vector<EntityUID> same, all; const std::string t = typeStr(*form, k);
          for (auto u : where.List()) { if (&where == form.get() && u == k) continue; all.push_back(u); if (!t.empty() && typeStr(where, u) == t) same.push_back(u); }
          if (!same.empty() && g() % 4) return same[g() % same.size()]; if (all.empty()) return static_cast<EntityUID>(5000); return all[g() % all.size()]; };
        if (which == 0) { snap = std::make_unique<RSForm>(*form); ev = { {"e", "Snapshot"} }; }
        else if (which <= 2) {
          ops::EquationOptions table; json tj;
          const bool wantAdmissible = g() % 4 != 0;
          for (int attempt = 0; attempt < 40; ++attempt) {
            table = ops::EquationOptions{}; tj = json::array(); std::set<EntityUID> ks, vs;
            const int pairs = static_cast<int>(g() % 3);
            for (int i = 0; i < pairs; ++i) { const EntityUID k = ids[g() % ids.size()]; const EntityUID v = (snap->Contains(k) && g() % 2) ? k : partner(*snap, k);
              if (ks.count(k) || vs.count(v)) continue; ks.insert(k); vs.insert(v); table.Insert(k, v); tj.push_back({ {"k", k}, {"v", v} }); }
            if (!wantAdmissible || tj.empty()) break;
            g_uids.clear(); if (ops::BinarySynthes{ *form, *snap, table }.IsCorrectlyDefined()) break;
          }
          json fr = json::array(); g_uids.clear(); for (size_t i = 0; i < snap->Core().size() + 2; ++i) { const auto f = fresh(); g_uids.push_back(f); fr.push_back(f); }
          json x = { {"table", tj}, {"fresh", fr}, {"defined", false}, {"items", json::array()}, {"t1", json::array()}, {"t2", json::array()} };
          { ops::BinarySynthes op{ *form, *snap, table }; const bool defined = op.IsCorrectlyDefined(); auto res = op.Execute();
            x["defined"] = defined && res != nullptr; x["agree"] = defined == (res != nullptr);
            if (res) { for (auto u : res->List()) x["items"].push_back({ {"uid", u}, {"alias", res->GetRS(u).alias}, {"kind", KindName(res->GetRS(u).type)}, {"ok", res->GetParse(u).status == semantic::ParsingStatus::VERIFIED}, {"type", typeStr(*res, u)} });
              for (const auto& [a, b] : op.Translations().at(0)) x["t1"].push_back({ {"u", a}, {"img", b} });
              for (const auto& [a, b] : op.Translations().at(1)) x["t2"].push_back({ {"u", a}, {"img", b} }); } }
          g_uids.clear();
          ev = { {"e", "Synth"} }; pendingSyn = x; }
        else {
          // candidate tables are drawn until one is admissible (most random tables are not); every fourth time the first draw is used as it is
          ops::EquationOptions table; json tj;
          const bool wantAdmissible = g() % 4 != 0;
          for (int attempt = 0; attempt < 40; ++attempt) {
            table = ops::EquationOptions{}; tj = json::array(); std::set<EntityUID> ks, vs;
            const int pairs = 1 + (g() % 4 == 0);
            for (int i = 0; i < pairs; ++i) { const EntityUID k = g() % 15 ? ids[g() % ids.size()] : static_cast<EntityUID>(5000); const EntityUID v = g() % 15 ? partner(*form, k) : k;
              if (ks.count(k) || vs.count(v)) continue; ks.insert(k); vs.insert(v);
              const int m = static_cast<int>(g() % 4); const char* mode = m <= 1 ? "hier" : m == 2 ? "del" : "new";
              table.Insert(k, v, m <= 1 ? ops::Equation{} : m == 2 ? ops::Equation{ ops::Equation::Mode::keepDel, "" } : ops::Equation{ ops::Equation::Mode::createNew, "renamed" });
              tj.push_back({ {"k", k}, {"v", v}, {"m", mode} }); }
            if (tj.empty()) { const EntityUID k = ids[0]; const EntityUID v = partner(*form, k); table.Insert(k, v, ops::Equation{}); tj.push_back({ {"k", k}, {"v", v}, {"m", "hier"} }); }
            if (!wantAdmissible || form->Ops().IsEquatable(table)) break;
          }
          const bool equatable = form->Ops().IsEquatable(table);
          const auto tr = form->Ops().Equate(table);
          json x = { {"accepted", tr.has_value()}, {"equatable", equatable}, {"tr", json::array()} };
          if (tr.has_value()) for (auto u : ids) x["tr"].push_back({ {"u", u}, {"img", tr->ContainsKey(u) ? (*tr)(u) : u} });
          ev = { {"e", "Equate"}, {"table", tj} }; pendingEq = x; } }
      else if (w < 22 && n < maxCst) { const std::string k = kinds[g() % 8]; Def d = MakeDef(k == std::string("base") || k == std::string("constant") ? (g() % 6 ? 0 : 1) : static_cast<int>(g() % 10), names[g() % 10], names[g() % 10]);
        const auto f = fresh(); g_uids.push_back(f); const auto got = form->Emplace(KindOf(k), d.text);
        ev = { {"e", "Emplace"}, {"k", k}, {"def", d.tree}, {"fresh", got} }; }
      else if (w < 40) { const auto u = pick(); Def d = MakeDef(static_cast<int>(g() % 10), names[g() % 10], names[g() % 10]);
        const bool r = form->SetExpressionFor(u, d.text); ev = { {"e", "SetExpression"}, {"u", u}, {"def", d.tree}, {"res", r} }; }
      else if (w < 52) { const auto u = pick(); const bool r = form->Erase(u); ev = { {"e", "Erase"}, {"u", u}, {"res", r} }; }
      else if (w < 68) { const auto u = pick(); const std::string a = aliases[g() % 14]; const bool sub = g() % 2; const bool r = form->SetAliasFor(u, a, sub);
        ev = { {"e", "SetAlias"}, {"u", u}, {"a", a}, {"b", sub}, {"res", r} }; }
      else if (w < 78) { const auto u = pick(); const int p = 1 + static_cast<int>(g() % (n + 1)); auto it = form->List().begin(); for (int k = 1; k < p && it != form->List().end(); ++k) ++it;
        const bool r = form->MoveBefore(u, it); ev = { {"e", "MoveBefore"}, {"u", u}, {"p", p}, {"res", r} }; }
      else if (w < 82) { form->ResetAliases(); ev = { {"e", "ResetAliases"} }; }
      else if (w < 88) { const auto u = pick(); semantic::TrackingFlags fl{}; fl.allowEdit = g() % 2; form->Mods().Track(u, fl); ev = { {"e", "Track"}, {"u", u}, {"b", fl.allowEdit} }; }
      else if (w < 92) { const auto u = pick(); form->Mods().StopTracking(u); ev = { {"e", "StopTracking"}, {"u", u} }; }
      else if (w < 96 && n < maxCst) { ConceptRecord rec; rec.uid = g() % 3 ? pick() : fresh(); rec.alias = aliases[g() % 14]; const std::string k = kinds[g() % 8]; rec.type = KindOf(k);
        Def d = MakeDef(rec.type == CstType::base || rec.type == CstType::constant ? 0 : static_cast<int>(g() % 10), rec.alias, names[g() % 10]); rec.rs = d.text;
        const auto f = fresh(); g_uids.push_back(f); const auto got = form->InsertCopy(rec);
        ev = { {"e", "InsertCopy"}, {"uid", rec.uid}, {"a", rec.alias}, {"k", k}, {"def", d.tree}, {"fresh", got} }; }
      else if (extract && w >= 97 && w < 108 && n > 0) {
        const bool basis = g() % 2; SetOfEntities sel; const int how = static_cast<int>(g() % 4);
        if (how == 0) { for (auto u : form->List()) if (semantic::IsBaseSet(form->GetRS(u).type)) sel.insert(u); }
        if (how == 1) { for (auto u : form->List()) if (semantic::IsBaseNotion(form->GetRS(u).type) && g() % 3) sel.insert(u); }
        if (sel.empty() || how >= 2) { const int k = 1 + static_cast<int>(g() % 3); for (int i = 0; i < k; ++i) sel.insert(pick()); }
        std::unique_ptr<RSForm> res; bool defined = false;
        if (basis) { ops::OpExtractBasis op{ *form, sel }; defined = op.IsCorrectlyDefined(); res = op.Execute(); }
        else { ops::OpMaxPart op{ *form, sel }; defined = op.IsCorrectlyDefined(); res = op.Execute(); }
        json x = { {"op", basis ? "basis" : "maxpart"}, {"sel", json::array()}, {"defined", defined && res != nullptr}, {"members", json::array()}, {"aliases", json::array()}, {"oks", json::array()} };
        for (auto u : sel) x["sel"].push_back(u);
        if (res) for (auto u : res->List()) { x["members"].push_back(u); x["aliases"].push_back(res->GetRS(u).alias); x["oks"].push_back(res->GetParse(u).status == semantic::ParsingStatus::VERIFIED); }
        ev = { {"e", "Extract"} }; pendingExt = x; }
      else if (w < 97) { if (g() % 2) { form = LoadForm(Save(*form)); ev = { {"e", "SaveLoad"} }; } else { (void)form->Ops().DeleteDuplicates(); ev = { {"e", "DeleteDuplicates"} }; } }
      else if (w >= 114) { const auto u = pick(); static const char* forms[] = { "plur,gent", "sing,datv", "sing,gent" }; static const char* texts[] = { "manual", "other" };
        const std::string f = forms[g() % 3], t = texts[g() % 2]; const bool r = form->SetTermFormFor(u, t, lang::Morphology{ f });
        ev = { {"e", "SetTermForm"}, {"u", u}, {"f", lang::Morphology{ f }.ToString()}, {"t", t}, {"res", r} }; }
      else { const auto u = pick(); const json q = RandAtoms(g, names, 10); const int which = static_cast<int>(g() % 3);
        if (which == 0) {
          // terms may reference base sets only, and base sets get plain-word terms: term references stay acyclic
          // (cyclic term references have no stable resolution, see known finding K2)
          json tq = json::array(); const bool isBase = form->Core().Contains(u) && semantic::IsBaseSet(form->GetRS(u).type);
          for (auto& a : q) { if (isBase) tq.push_back({ {"r", false}, {"s", a["s"]} }); else if (a["r"].get<bool>()) tq.push_back({ {"r", true}, {"s", (g() % 2) ? "X1" : "X2"} }); else tq.push_back(a); }
          const bool r = form->SetTermFor(u, Atoms(tq)); ev = { {"e", "SetTerm"}, {"u", u}, {"q", tq}, {"res", r} }; }
        else if (which == 1) { const bool r = form->SetDefinitionFor(u, Atoms(q)); ev = { {"e", "SetText"}, {"u", u}, {"q", q}, {"res", r} }; }
        else { json wds = json::array(); for (auto& a : q) wds.push_back(a["s"]); const bool r = form->SetConventionFor(u, Words(wds)); ev = { {"e", "SetConvention"}, {"u", u}, {"w", wds}, {"res", r} }; } }
      ev["obs"] = ObsOf(*form);
      if (!pendingExt.is_null()) { ev["obs"]["ext"] = pendingExt; pendingExt = json(); }
      if (!pendingSyn.is_null()) ev["obs"]["syn"] = pendingSyn;
      if (!pendingEq.is_null()) ev["obs"]["eq"] = pendingEq;
      ev["obs"]["convs"] = json::array(); 
      out << ev.dump() << std::endl; ++events;
    }
    ++rep.cases;
  }
  rep.counters["events"] = events; rep.counters["traces"] = traces;
  rep.Write(args.get("out"));
  return 0;
}

int main(int argc, char** argv) {
  vh::Args args(argc, argv);
  if (args.has("record")) { InstallHook(); return vh::RunRecorder(args.get("trace"), args.get("out"), [&]() { return Record(args); }, 1800); }
  { std::stringstream ss(args.get("props")); std::string p; while (std::getline(ss, p, ',')) if (!p.empty()) g_props.insert(p); }
  InstallHook();
  vh::IsoOptions iso; iso.faultProperty = "C09"; iso.batch = 1000; iso.watchdogSeconds = 90;
  return vh::Main(argc, argv, Handle, true, iso);
}
