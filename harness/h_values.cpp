// C15: ccl::object::StructuredData / SDSet against tla/RSValues.tla (cases from Gen_C15)
#include "rsconv.hpp"

#include <random>

using vh::json;
using namespace ccl;
using namespace ccl::object;

static StructuredData Build(const json& r) {
  const std::string k = r["k"];
  if (k == "val") return Factory::Val(r["n"].get<int>());
  std::vector<StructuredData> ch; for (auto& c : r["c"]) ch.push_back(Build(c));
  if (k == "tuple") return Factory::Tuple(ch);
  if (k == "set") return Factory::Set(ch);
  if (k == "single") return Factory::Singleton(ch[0]);
  if (k == "pow") return Factory::Boolean(ch[0]);
  return Factory::Decartian(ch);
}
static json Ordered(const StructuredData& d) { return rsconv::ValueToJson(d); }   // sets in iteration order

static std::string SpecString(const json& v) {   // the documented rendering {a, b}, (a, b)
  if (v.is_number_integer()) return std::to_string(v.get<int>());
  const bool tup = v.contains("t"); std::string s(1, tup ? '(' : '{'); bool first = true;
  for (auto& x : v[tup ? "t" : "s"]) { if (!first) s += ", "; first = false; s += SpecString(x); }
  return s + (tup ? ')' : '}');
}

static void Handle(const json& c, vh::Report& r) {
  const std::string kind = c["kind"];
  std::vector<std::string> why;
  auto chk = [&](const char* name, bool ok) { ++r.checks; if (!ok) why.emplace_back(name); };
  if (kind == "hist") {
    StructuredData h[3];
    bool okResults = true;
    for (auto& op : c["hist"]) {
      const std::string o = op["op"]; const int i = op["i"].get<int>() - 1, j = op["j"].get<int>() - 1;
      if (o == "Init") { h[0] = Build(op["r"]); h[1] = h[0]; h[2] = h[0]; }
      else if (o == "Copy") h[j] = h[i];
      else if (o == "Assign") h[i] = Build(op["r"]);
      else { const auto e = Build(op["r"]); const bool had = h[i].B().Contains(e); const bool res = h[i].ModifyB().AddElement(e); if (res == had) okResults = false; }
    }
    chk("AddElement.result", okResults);
    for (int k = 0; k < 3; ++k) {
      const auto& f = c["final"][k];
      chk("handle-value", Ordered(h[k]) == f["v"]);
    }
    if (!why.empty()) r.Violation("C15", "hist:" + why[0], c, { {"failed", why}, {"got", { Ordered(h[0]), Ordered(h[1]), Ordered(h[2]) }} });
    if (c["hist"].size() >= 3) r.NonTrivial(c["hist"].dump());
    if ((r.cases % 7919) == 3) r.Sample(c);
    return;
  }
  auto x = Build(c["a"]); auto y = Build(c["b"]);
  const bool eq = c["eq"].get<bool>(), lt = c["lt"].get<bool>();
  chk("==", (x == y) == eq);
  chk("!=", (x != y) != eq);
  chk("<", (x < y) == lt);
  chk("Compare", (x.Compare(y) == Comparison::EQUAL) == eq && (x.Compare(y) == Comparison::LESS) == lt && (x.Compare(y) == Comparison::GREATER) == (!eq && !lt));
  chk("iteration", Ordered(x) == c["items"]);
  chk("ToString", x.ToString() == SpecString(c["items"]));
  if (kind == "sets") {
    chk("IsSubsetOrEq", x.B().IsSubsetOrEq(y.B()) == c["sub"].get<bool>());
    chk("Cardinality", x.B().Cardinality() == c["card"].get<int>() && x.B().IsEmpty() == (c["card"].get<int>() == 0));
    { int n = 0; for (auto it = x.B().begin(); it != x.B().end(); ++it) ++n; chk("iteration.count", n == c["card"].get<int>()); }
    chk("Union", Ordered(x.B().Union(y.B())) == c["un"]);
    chk("Intersect", Ordered(x.B().Intersect(y.B())) == c["inter"]);
    chk("Diff", Ordered(x.B().Diff(y.B())) == c["diff"]);
    chk("SymDiff", Ordered(x.B().SymDiff(y.B())) == c["sym"]);
    { size_t i = 0; bool ok = true; for (const auto& el : y.B()) { if (i >= c["memb"].size() || x.B().Contains(el) != c["memb"][i].get<bool>()) ok = false; ++i; } chk("Contains", ok && i == c["memb"].size()); }
    if (!c["red"].empty()) chk("Reduce", Ordered(x.B().Reduce()) == c["red"][0]);
    if (!c["proj"].empty()) { chk("Projection", Ordered(x.B().Projection({ 2 })) == c["proj"][0] && Ordered(x.B().Projection({ 2, 1 })) == c["proj"][1]); }
    if (!c["deb"].empty()) chk("Debool", Ordered(x.B().Debool()) == c["deb"][0]);
    chk("Singleton", Ordered(Factory::Singleton(x)) == c["single"]);
    { auto copy = x; auto before = Ordered(x); copy.ModifyB().AddElement(Factory::Val(77)); chk("copy-on-write", Ordered(x) == before); }
    { auto copy = x; auto before = Ordered(copy); x.ModifyB().AddElement(y); chk("copy-on-write.reverse", Ordered(copy) == before); }
  }
  if (!why.empty()) r.Violation("C15", why[0], { {"a", c["a"]}, {"b", c["b"]} }, { {"failed", why} });
  if (kind == "sets" && c["card"].get<int>() >= 1) r.NonTrivial(c["a"].dump() + "|" + c["b"].dump());
  if ((r.cases % 7919) == 3) r.Sample(c);
}

// ------------------------------------------------------------------ recording (direction B)
static json TyX() { return { {"k", "base"}, {"id", "X1"}, {"c", json::array()} }; }
static json TyBool(const json& t) { return { {"k", "bool"}, {"id", ""}, {"c", json::array({ t })} }; }
static json TyTuple(const json& c) { return { {"k", "tuple"}, {"id", ""}, {"c", c} }; }
static json Rec(const char* k, int n, const json& c, const json& ty) { return { {"k", k}, {"n", n}, {"c", c}, {"ty", ty} }; }
// random recipe of a given typification; `lazyOk` allows power sets / products
static json RandRecipe(std::mt19937& g, const json& ty, int nvals, bool lazyOk) {
  const std::string k = ty["k"];
  if (k == "base") return Rec("val", 1 + static_cast<int>(g() % nvals), json::array(), ty);
  if (k == "tuple") { json c = json::array(); for (auto& t : ty["c"]) c.push_back(RandRecipe(g, t, nvals, lazyOk)); return Rec("tuple", 0, c, ty); }
  const json& et = ty["c"][0];
  if (lazyOk && et["k"] == "bool" && g() % 3 == 0) {          // power set of a set with up to 7 elements (128 > cache limit 100)
    json base = json::array(); int n = static_cast<int>(g() % 8);
    for (int i = 0; i < n; ++i) base.push_back(RandRecipe(g, et["c"][0], std::max(nvals, 7), false));
    return Rec("pow", 0, json::array({ Rec("set", 0, base, et) }), ty);
  }
  if (lazyOk && et["k"] == "tuple" && g() % 3 == 0) {         // product, up to 6 x 6 x 3 = 108 elements
    json c = json::array(); int lim[] = { 7, 7, 4 }; int idx = 0;
    for (auto& ft : et["c"]) { json f = json::array(); int n = static_cast<int>(g() % lim[idx++ % 3]);
      for (int i = 0; i < n; ++i) f.push_back(RandRecipe(g, ft, 7, false)); c.push_back(Rec("set", 0, f, TyBool(ft))); }
    return Rec("prod", 0, c, ty);
  }
  if (g() % 11 == 0) return Rec("single", 0, json::array({ RandRecipe(g, et, nvals, lazyOk) }), ty);
  json c = json::array(); int n = static_cast<int>(g() % 6);
  for (int i = 0; i < n; ++i) c.push_back(RandRecipe(g, et, nvals, lazyOk));
  return Rec("set", 0, c, ty);
}
static int Record(const vh::Args& args) {
  const long n = args.num("record", 300);
  std::mt19937 g(static_cast<unsigned>(args.num("seed", 1)));
  std::ofstream out(args.get("trace"));
  vh::Report rep;
  const json X = TyX();
  const std::vector<json> types = { TyBool(X), TyBool(TyTuple({ X, X })), TyBool(TyBool(X)), TyBool(TyTuple({ X, X, X })),
                                    TyBool(TyTuple({ TyBool(X), X })), TyBool(TyBool(TyBool(X))), TyBool(TyBool(TyTuple({ X, X }))) };
  for (long i = 0; i < n; ++i) {
    const json& ty = types[g() % types.size()];
    json ra = RandRecipe(g, ty, 4, true), rb = (g() % 5 == 0) ? ra : RandRecipe(g, ty, 4, true);
    auto x = Build(ra), y = Build(rb);
    json ev = { {"e", "Pair"}, {"a", ra}, {"b", rb}, {"eq", x == y}, {"lt", x < y}, {"sub", x.B().IsSubsetOrEq(y.B())},
                {"card", x.B().Cardinality()}, {"items", Ordered(x)}, {"un", Ordered(x.B().Union(y.B()))},
                {"inter", Ordered(x.B().Intersect(y.B()))}, {"diff", Ordered(x.B().Diff(y.B()))}, {"sym", Ordered(x.B().SymDiff(y.B()))} };
    json memb = json::array(); for (const auto& el : y.B()) memb.push_back(x.B().Contains(el)); ev["memb"] = memb;
    { auto copy = x; auto before = Ordered(x); copy.ModifyB().AddElement(y); ev["copyIntact"] = (Ordered(x) == before) && (Ordered(x) == ev["items"]); }
    out << ev.dump() << std::endl; ++rep.cases;
  }
  rep.counters["events"] = n;
  rep.Write(args.get("out"));
  return 0;
}

int main(int argc, char** argv) {
  { vh::Args args(argc, argv); if (args.has("record")) return vh::RunRecorder(args.get("trace"), args.get("out"), [&]() { return Record(args); }); }
  vh::IsoOptions iso; iso.faultProperty = "C15"; iso.batch = 4000; iso.watchdogSeconds = 90;
  return vh::Main(argc, argv, Handle, true, iso);
}
