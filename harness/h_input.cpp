// C04: every public analysis entry point on arbitrary input (token sequences and one-edit neighbours of valid
// renderings from Gen_C04, spelled in both syntaxes, with junk bytes): the call returns, reports failure iff it logged
// a critical error, and every reported position lies within the input.  Isolated, built with ASan+UBSan.
//   --record N : logs one event per call for Trace_C04 (Post is then evaluated by TLC)
#include "rslang_text.hpp"
#include "ccl/rslang/Parser.h"
#include "ccl/rslang/Interpreter.h"
#include "ccl/rslang/Auditor.h"
#include "ccl/rslang/RSGenerator.h"
#include "ccl/semantic/RSModel.h"
#include "ccl/api/RSFormJA.h"
#include "ccl/lang/Reference.h"
#include "ccl/lang/RefsManager.h"
#include "ccl/lang/ManagedText.h"
#include "pyconcept.h"

using vh::json;
using namespace ccl;
using namespace ccl::rslang;
using semantic::CstType;
using semantic::RSModel;

struct Ctx4 {
  RSModel m; std::unique_ptr<Interpreter> interp; std::string jSchema; std::unique_ptr<api::RSFormJA> ja;
  Ctx4() {
    auto x1 = m.Emplace(CstType::base); auto c1 = m.Emplace(CstType::constant);
    auto s1 = m.Emplace(CstType::structured, "ℬ(X1×X1)");
    m.Emplace(CstType::term, "X1\\X1"); m.Emplace(CstType::function, "[a∈ℬ(X1)] {a}"); m.Emplace(CstType::predicate, "[a∈ℬ(X1)] a=X1");
    m.Emplace(CstType::function, "[a∈ℬ(X1)] {debool(a)}∪{debool(a)}");     // F2: fails at run time inside the inlined body when the argument has two elements
    m.Emplace(CstType::function, "[a∈ℬℬℬ(X1)] card(a)");                    // F3: needs a value; a call with a property argument is audited inside this body
    m.Emplace(CstType::axiom, "X1=X1"); m.Emplace(CstType::theorem, "∀a∈X1 a=a");
    for (int i = 0; i < 2; ++i) { m.Values().AddBasicElement(x1, "x" + std::to_string(i)); m.Values().AddBasicElement(c1, "c" + std::to_string(i)); }
    (void)m.Values().SetStructureData(s1, object::Factory::Set({ object::Factory::TupleV({ 1, 2 }) }));
    auto* mp = &m;
    interp = std::make_unique<Interpreter>(m.RSLang(), m.RSLang().ASTContext(),
      [mp](const std::string& n) -> std::optional<object::StructuredData> { auto uid = mp->Core().FindAlias(n); if (!uid) return std::nullopt; return mp->Values().SDataFor(*uid); });
    semantic::RSForm form{}; 
    form.Emplace(CstType::base); form.Emplace(CstType::constant); form.Emplace(CstType::structured, "ℬ(X1×X1)"); form.Emplace(CstType::term, "X1\\X1");
    form.Emplace(CstType::function, "[a∈ℬ(X1)] {a}"); form.Emplace(CstType::predicate, "[a∈ℬ(X1)] a=X1");
    form.Emplace(CstType::function, "[a∈ℬ(X1)] {debool(a)}∪{debool(a)}"); form.Emplace(CstType::function, "[a∈ℬℬℬ(X1)] card(a)");
    form.Emplace(CstType::axiom, "X1=X1"); form.Emplace(CstType::theorem, "∀a∈X1 a=a");
    ja = std::make_unique<api::RSFormJA>(api::RSFormJA::FromData(std::move(form)));
    jSchema = ja->ToJSON();
  }
};
static Ctx4& C() { static Ctx4 c; return c; }

static bool ValidUtf8(const std::string& s) {
  for (size_t i = 0; i < s.size();) { unsigned char c = static_cast<unsigned char>(s[i]);
    int n = c < 0x80 ? 1 : (c >> 5) == 6 ? 2 : (c >> 4) == 14 ? 3 : (c >> 3) == 30 ? 4 : 0;
    if (n == 0 || i + n > s.size()) return false;
    for (int k = 1; k < n; ++k) if ((static_cast<unsigned char>(s[i + k]) & 0xC0) != 0x80) return false;
    i += n; }
  return true;
}
static std::string Raw(const std::string& tok) { std::string out; for (size_t i = 1; i + 1 < tok.size(); i += 2) out += static_cast<char>(std::stoi(tok.substr(i, 2), nullptr, 16)); return out; }
static std::string Build(const json& toks, bool math, bool tight) {
  std::string text;
  for (auto& t : toks) { const std::string tok = t.get<std::string>();
    const std::string s = tok[0] == '~' ? Raw(tok) : rstext::Spell(tok, math);
    if (!text.empty() && !s.empty()) { const bool glue = rstext::IdChar(static_cast<unsigned char>(text.back())) && rstext::IdChar(static_cast<unsigned char>(s[0]));
      if (!tight || glue) text += ' '; }
    text += s; }
  return text;
}

// one observed call: [fn, returned ok, #critical, positions]; `lenUnit` = admissible upper bound for positions
struct Obs { std::string fn; bool ok; int ncritical; std::vector<int> positions; int prefix{ 0 }; };
static Obs FromErrors(const std::string& fn, bool ok, const std::vector<Error>& errs) {
  Obs o{ fn, ok, 0, {} }; for (const auto& e : errs) { if (e.IsCritical()) ++o.ncritical; o.positions.push_back(e.position); } return o;
}
static Obs FromJson(const std::string& fn, const std::string& out) {
  const auto j = json::parse(out);
  // the JSON analyses run the type check and then the value-class check: they succeed when both did
  Obs o{ fn, j.at("parseResult").get<bool>() && (!j.contains("valueClass") || j.at("valueClass") != "invalid"), 0, {} };
  for (auto& e : j.at("errors")) { if (e.at("isCritical").get<bool>()) ++o.ncritical; o.positions.push_back(e.at("position").get<int>()); }
  o.prefix = j.value("prefixLen", 0);     // CheckConstituenta analyses "<alias>:==<definition>": positions refer to that text
  return o;
}

static std::vector<Obs> CallAll(const std::string& text, Syntax hint) {
  std::vector<Obs> out;
  { Parser p; const bool ok = p.Parse(text, hint); out.push_back(FromErrors("Parser::Parse", ok, p.Errors().All())); }
  { auto a = C().m.RSLang().MakeAuditor(); const bool ok = a->CheckExpression(text, hint); out.push_back(FromErrors("Auditor::CheckExpression", ok, a->Errors().All()));
    if (ok) { const bool v = a->CheckValue(); out.push_back(FromErrors("Auditor::CheckValue", v, a->Errors().All())); } }
  { const auto r = C().interp->Evaluate(text, hint); out.push_back(FromErrors("Interpreter::Evaluate", r.has_value(), C().interp->Errors().All())); }
  out.push_back(FromJson("api::ParseExpression", api::ParseExpression(text, hint)));
  out.push_back(FromJson("RSFormJA::CheckExpression", C().ja->CheckExpression(text, hint)));
  out.push_back(FromJson("RSFormJA::CheckConstituenta", C().ja->CheckConstituenta("D9", text, "term")));
  return out;
}
static void CallUnreported(const std::string& text) {   // entry points that only have to return
  (void)ConvertTo(text, Syntax::ASCII); (void)ConvertTo(text, Syntax::MATH);
  (void)ConvertToASCII(text); (void)ConvertToMath(text); (void)ParseExpression(text);
  (void)CheckExpression(C().jSchema, text); (void)CheckConstituenta(C().jSchema, "D9", text, "term");
  (void)lang::Reference::Parse(text); (void)lang::Reference::ExtractAll(text);
  struct EmptyCtx : lang::EntityTermContext {}; static EmptyCtx emptyCtx{}; lang::RefsManager mgr(emptyCtx); (void)mgr.Resolve(text); (void)mgr.OutputRefs(text);
  (void)lang::ManagedText(text).Referals();
  { std::string copy = text; (void)SubstituteGlobals(copy, StrSubstitutes{ {"X1", "X11"} }); }
}

static const char* HintName(Syntax s) { return s == Syntax::MATH ? "MATH" : s == Syntax::ASCII ? "ASCII" : "UNDEF"; }

static void CheckText(const std::string& text, const json& wit, vh::Report& r, std::ofstream* trace) {
  const bool valid = ValidUtf8(text);
  const int bytes = static_cast<int>(text.size()), cps = valid ? static_cast<int>(vh::CodePoints(text).size()) : bytes;
  for (const Syntax hint : { Syntax::MATH, Syntax::ASCII, Syntax::UNDEF }) {
    const int len = hint == Syntax::MATH ? cps : bytes;      // MATH positions are code points; for auto-detection bytes bound both
    std::vector<Obs> obs;
    try { obs = CallAll(text, hint); }
    catch (const json::exception& e) { r.Violation("C04", "json-exception-from-analysis", wit, { {"hint", HintName(hint)}, {"what", e.what()} }); continue; }
    for (const auto& o : obs) {
      ++r.checks;
      if (trace) { *trace << json{ {"e", "Call"}, {"fn", o.fn}, {"hint", HintName(hint)}, {"returned", true}, {"ok", o.ok}, {"ncritical", o.ncritical}, {"positions", o.positions}, {"len", len + o.prefix} }.dump() << std::endl; r.Count("events"); continue; }
      json w2 = wit; w2["fn"] = o.fn; w2["hint"] = HintName(hint);
      if (o.ok == (o.ncritical >= 1)) r.Violation("C04", o.ok ? "success-with-critical-error" : "failure-without-critical-error", w2, { {"ncritical", o.ncritical} });
      for (int p : o.positions) if (p < 0 || p > len + o.prefix) { r.Violation("C04", "position-outside-input", w2, { {"position", p}, {"len", len}, {"prefix", o.prefix} }); break; }
    }
  }
  try { CallUnreported(text); }
  catch (const json::exception& e) { r.Violation("C04", "json-exception-from-wrapper", wit, { {"what", e.what()} }); }
}

// ------------------------------------------------------------------ schema documents with one damaged field
static void Damage(json& slot, const std::string& mut) {
  if (mut == "null") slot = nullptr; else if (mut == "int") slot = 7; else if (mut == "negative") slot = -1; else if (mut == "huge") slot = 99999999999LL;
  else if (mut == "string") slot = "X1"; else if (mut == "empty-string") slot = ""; else if (mut == "array") slot = json::array({ 1, "a" });
  else if (mut == "object") slot = json::object({ {"x", 1} }); else if (mut == "bool") slot = true; else if (mut == "bad-enum") slot = "no-such-kind";
  else if (mut == "junk-utf8") slot = std::string("a\x80\xFF");
  else if (mut == "nested-deep") { json d = 1; for (int i = 0; i < 200; ++i) d = json::array({ d }); slot = d; }
}
static bool DamageField(json& obj, const std::string& field, const std::string& mut) {     // first occurrence at any depth
  if (obj.is_object()) {
    if (obj.contains(field)) { if (mut == "drop") obj.erase(field); else Damage(obj[field], mut); return true; }
    for (auto& [k, v] : obj.items()) if (DamageField(v, field, mut)) return true;
  }
  return false;
}
static void JsonCase(const json& c, vh::Report& r) {
  const int item = std::stoi(c["toks"][0].get<std::string>()); const std::string field = c["toks"][1], mut = c["toks"][2];
  json doc = json::parse(C().jSchema);
  bool applied = false;
  if (mut == "dup-uid") { if (item >= 1 && item < static_cast<int>(doc["items"].size())) { doc["items"][item]["entityUID"] = doc["items"][item - 1]["entityUID"]; applied = true; } }
  else if (item == 0) applied = DamageField(doc, field, mut);
  else if (item <= static_cast<int>(doc["items"].size())) applied = DamageField(doc["items"][item - 1], field, mut);
  if (!applied) return;
  ++r.checks; r.Count("json-documents");
  std::string text;
  try { text = doc.dump(); } catch (const json::exception&) { text = doc.dump(-1, ' ', false, json::error_handler_t::ignore) + "\x80"; }
  try {
    auto a = api::RSFormJA::FromJSON(text);
    const std::string j1 = a.ToJSON();
    const std::string j2 = api::RSFormJA::FromJSON(j1).ToJSON();
    if (j1 != j2) r.Violation("C04", "json.reload-unstable", { {"toks", c["toks"]} });
    (void)a.CheckExpression("X1\\X1"); (void)a.CheckConstituenta("D9", "X1", "term");
    (void)CheckSchema(text); (void)ResetAliases(text); (void)CheckExpression(text, "X1"); (void)CheckConstituenta(text, "D9", "X1", "term");
    r.Count("json-accepted");
  } catch (const json::exception&) { r.Count("json-rejected"); }     // the documented JSON format error
  r.NonTrivial(c["toks"].dump());
}

// one construct nested n times (MATH or ASCII spelling)
static std::string DeepText(const std::string& op, int n, bool math) {
  std::string open, close, core = "X1";
  if (op == "BOOLEAN") { open = math ? "ℬ" : "B"; core = "(X1)"; }
  else if (op == "PAREN") { open = "("; close = ")"; core = math ? "X1∪X1" : "X1 \\union X1"; }
  else if (op == "NOT") { open = math ? "¬" : "\\neg "; core = math ? "1=1" : "1 \\eq 1"; }
  else if (op == "ENUM") { open = "{"; close = "}"; }
  else if (op == "SMALLPR") { open = "pr1("; close = ")"; }
  else if (op == "TUPLE") { open = "(X1,"; close = ")"; }
  else if (op == "REF") { open = "@{"; close = "|sing,nomn}"; }
  else { open = math ? "∀a∈X1 " : "\\A a \\in X1 "; core = math ? "a=a" : "a \\eq a"; }
  std::string t; t.reserve((open.size() + close.size()) * static_cast<size_t>(n) + core.size());
  for (int i = 0; i < n; ++i) t += open;
  t += core;
  for (int i = 0; i < n; ++i) t += close;
  return t;
}
static void Handle(const json& c, vh::Report& r) {
  if (c["kind"] == "json") { JsonCase(c, r); return; }
  if (c["kind"] == "deep") {
    const std::string op = c["toks"][0]; const int n = std::stoi(c["toks"][1].get<std::string>());
    for (const bool math : { true, false }) CheckText(DeepText(op, n, math), { {"deep", c["toks"]}, {"math", math} }, r, nullptr);
    r.Count("deep-inputs"); r.NonTrivial(c["toks"].dump());
    return;
  }
  for (const bool math : { true, false }) for (const bool tight : { false, true }) {
    const std::string text = Build(c["toks"], math, tight);
    CheckText(text, { {"toks", c["toks"]}, {"math", math}, {"tight", tight}, {"bytes", [&] { json a = json::array(); for (unsigned char ch : text) a.push_back(static_cast<int>(ch)); return a; }()} }, r, nullptr);
  }
  if (c["toks"].size() >= 2) r.NonTrivial(c["toks"].dump());
  if ((r.cases % 4999) == 11) r.Sample({ {"toks", c["toks"]} });
}

static int Record(const vh::Args& args) {
  std::ofstream out(args.get("trace")); vh::Report rep;
  std::ifstream in(args.get("in")); std::string line; json c; long n = args.num("record", 2000), k = 0;
  while (k < n && std::getline(in, line)) { if (!vh::ParseCaseLine(line, c)) continue; ++k; ++rep.cases;
    const std::string text = Build(c["toks"], k % 2 == 0, false); CheckText(text, {}, rep, &out); }
  rep.Write(args.get("out"));
  return 0;
}

int main(int argc, char** argv) {
  vh::Args args(argc, argv);
  C();
  if (args.has("record")) return vh::RunRecorder(args.get("trace"), args.get("out"), [&]() { return Record(args); });
  vh::IsoOptions iso; iso.faultProperty = "C04"; iso.batch = 250; iso.watchdogSeconds = 150;   // the deep-nesting inputs are 0.5 MB each and go through ~70 calls
  return vh::Main(argc, argv, Handle, true, iso);
}
