// C18: reused analysers are history-independent.  Every input sequence from Gen_C18 is fed to one long-lived Parser,
// Auditor, Interpreter (and through the library's shared static generators); after the last input every observable is
// compared with what freshly constructed objects give for that same input.
#include "rsconv.hpp"
#include "rslang_text.hpp"
#include "ccl/rslang/Parser.h"
#include "ccl/rslang/Interpreter.h"
#include "ccl/rslang/Auditor.h"
#include "ccl/rslang/RSGenerator.h"
#include "ccl/semantic/RSModel.h"

using vh::json;
using namespace ccl;
using namespace ccl::rslang;
using semantic::CstType;
using semantic::RSModel;

struct Ctx18 {
  RSModel m;
  Ctx18() {
    auto x1 = m.Emplace(CstType::base); m.Emplace(CstType::constant);
    auto s1 = m.Emplace(CstType::structured, "ℬ(X1×X1)");
    m.Emplace(CstType::function, "[a∈ℬ(X1)] {a}"); m.Emplace(CstType::function, "[a∈ℬ(R1)] ℬ(a)\\{a}"); m.Emplace(CstType::predicate, "[a∈ℬ(X1)] a=X1"); m.Emplace(CstType::axiom, "X1=X1");
    for (int i = 0; i < 2; ++i) m.Values().AddBasicElement(x1, "x" + std::to_string(i));
    (void)m.Values().SetStructureData(s1, object::Factory::Set({ object::Factory::TupleV({ 1, 2 }), object::Factory::TupleV({ 2, 2 }) }));
  }
  std::unique_ptr<Interpreter> MakeInterp() {
    auto* mp = &m;
    return std::make_unique<Interpreter>(m.RSLang(), m.RSLang().ASTContext(),
      [mp](const std::string& n) -> std::optional<object::StructuredData> { auto uid = mp->Core().FindAlias(n); if (!uid) return std::nullopt; return mp->Values().SDataFor(*uid); });
  }
};
static Ctx18& C() { static Ctx18 c; return c; }

static std::string Text(const json& in) {
  std::string text; const bool math = in["math"].get<bool>();
  for (auto& t : in["t"]) { const std::string tok = t.get<std::string>();
    std::string s; if (tok[0] == '~') { for (size_t i = 1; i + 1 < tok.size(); i += 2) s += static_cast<char>(std::stoi(tok.substr(i, 2), nullptr, 16)); } else s = rstext::Spell(tok, math);
    if (!text.empty() && text.back() != '\n' && s != "\n") text += ' ';
    text += s; }
  return text;
}
static json SafeStr(const std::string& s) { json a = json::array(); for (unsigned char ch : s) a.push_back(static_cast<int>(ch)); return a; }   // may hold invalid UTF-8
static json Errs(const ErrorLogger& log) { json a = json::array(); for (const auto& e : log.All()) { json ps = json::array(); for (auto& p : e.params) ps.push_back(SafeStr(p)); a.push_back({ e.eid, e.position, ps }); } return a; }

static json ObserveParser(Parser& p, const std::string& text, Syntax syn) {
  json o; const bool ok = p.Parse(text, syn); o["ok"] = ok; o["errors"] = Errs(p.Errors());
  if (ok) { std::vector<std::pair<int, int>> ranges; o["ast"] = rstext::Project(p.AST().Root(), &ranges); json rj = json::array(); for (auto& r : ranges) rj.push_back({ r.first, r.second }); o["ranges"] = rj;
    o["astText"] = SafeStr(AST2String::Apply(p.AST())); o["math"] = SafeStr(Generator::FromTree(p.AST(), Syntax::MATH)); o["ascii"] = SafeStr(Generator::FromTree(p.AST(), Syntax::ASCII)); }
  return o;
}
template<class A> static json ObserveAuditor(A& a, const std::string& text, Syntax syn) {
  json o; const bool ok = a.CheckExpression(text, syn); o["ok"] = ok; o["parsed"] = a.IsParsed();
  if (ok) { const auto& t = a.GetType(); o["type"] = std::holds_alternative<LogicT>(t) ? std::string("LOGIC") : std::get<Typification>(t).ToString();
    json args = json::array(); for (const auto& arg : a.GetDeclarationArgs()) args.push_back({ SafeStr(arg.name), arg.type.ToString() }); o["args"] = args;
    const bool v = a.CheckValue(); o["valueOk"] = v; if (v) o["valueClass"] = static_cast<int>(a.GetValueClass()); }
  o["errors"] = Errs(a.Errors());
  if (a.IsParsed()) o["astText"] = SafeStr(AST2String::Apply(a.AST()));
  return o;
}
static json ObserveInterp(Interpreter& in, const std::string& text, Syntax syn) {
  json o; const auto r = in.Evaluate(text, syn); o["has"] = r.has_value();
  if (r.has_value()) { if (std::holds_alternative<bool>(*r)) o["v"] = std::get<bool>(*r); else o["v"] = rsconv::Canon(rsconv::ValueToJson(std::get<object::StructuredData>(*r))); }
  if (r.has_value()) o["iterations"] = in.Iterations();      // the statement fixes the iteration count of successful calls only
  o["errors"] = Errs(in.Errors());
  return o;
}

static void Handle(const json& c, vh::Report& r) {
  Parser parser; auto auditor = C().m.RSLang().MakeAuditor(); auto interp = C().MakeInterp();
  const size_t n = c["seq"].size();
  for (size_t k = 0; k < n; ++k) {
    const auto& in = c["seq"][k]; const std::string text = Text(in); const Syntax syn = in.value("auto", false) ? Syntax::UNDEF : in["math"].get<bool>() ? Syntax::MATH : Syntax::ASCII;
    const json rp = ObserveParser(parser, text, syn), ra = ObserveAuditor(*auditor, text, syn), ri = ObserveInterp(*interp, text, syn);
    const json conv = SafeStr(ConvertTo(text, in["math"].get<bool>() ? Syntax::ASCII : Syntax::MATH));
    // conversion goes through the library's shared generators: its result for a text may not depend on what was converted before
    { static std::map<std::string, json> firstSeen; const std::string key = text + (in["math"].get<bool>() ? "|M" : "|A");
      const auto it = firstSeen.find(key);
      if (it == firstSeen.end()) firstSeen.emplace(key, conv);
      else if (it->second != conv) r.Violation("C18", "ConvertTo", { {"seq", c["seq"]}, {"input", SafeStr(text)} }, { {"now", conv}, {"before", it->second} }); }
    if (k + 1 < n) continue;                      // every prefix is itself an enumerated sequence
    Parser fp; auto fa = C().m.RSLang().MakeAuditor(); auto fi = C().MakeInterp();
    const json fpo = ObserveParser(fp, text, syn), fao = ObserveAuditor(*fa, text, syn), fio = ObserveInterp(*fi, text, syn);
    r.checks += 3;
    const json wit = { {"seq", c["seq"]}, {"last", SafeStr(text)} };
    if (rp != fpo) r.Violation("C18", "Parser", wit, { {"reused", rp}, {"fresh", fpo} });
    if (ra != fao) r.Violation("C18", "Auditor", wit, { {"reused", ra}, {"fresh", fao} });
    if (ri != fio) r.Violation("C18", "Interpreter", wit, { {"reused", ri}, {"fresh", fio} });
    (void)conv;
  }
  if (n >= 2) r.NonTrivial(c["seq"].dump());
  if ((r.cases % 997) == 3) r.Sample({ {"seq", c["seq"]} });
}

int main(int argc, char** argv) {
  C();
  vh::IsoOptions iso; iso.faultProperty = "C18"; iso.batch = 300; iso.watchdogSeconds = 90;
  return vh::Main(argc, argv, Handle, true, iso);
}
