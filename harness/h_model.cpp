// C11 (no stale calculated value) and the model half of C10 against tla/Model.tla (histories from Gen_Model).
#include "rsconv.hpp"
#include "rslang_text.hpp"
#include "ccl/semantic/RSModel.h"
#include "ccl/tools/JSON.h"
#include "ccl/tools/EntityGenerator.h"

#include <deque>
#include <random>

using vh::json;
using namespace ccl;
using semantic::CstType;
using semantic::RSModel;
using object::StructuredData;
using object::Factory;
using JSON = nlohmann::ordered_json;

static std::set<std::string> g_props;
static bool On(const char* p) { return g_props.empty() || g_props.count(p) > 0; }
static std::deque<EntityUID> g_uids;
static void InstallHook() {
  tools::EntityGenerator::verifSource = []() -> EntityUID {
    if (g_uids.empty()) return static_cast<EntityUID>(1000000 + std::rand() % 1000000);
    const auto u = g_uids.front(); g_uids.pop_front(); return u;
  };
}
static std::string DefText(const json& toks) { return toks.empty() ? std::string{} : rstext::Assemble(toks, true, 0).text; }
static std::string AsciiType(std::string s) {
  auto rep = [&](const std::string& a, const std::string& b) { size_t p; while ((p = s.find(a)) != std::string::npos) s.replace(p, a.size(), b); };
  rep("ℬ", "B"); rep("×", "*"); return s;
}
static semantic::TextInterpretation TextOf(const json& ks) { semantic::TextInterpretation ti; for (auto& k : ks) ti.SetInterpretantFor(k.get<int>(), "e" + std::to_string(k.get<int>())); return ti; }
static StructuredData PairsOf(const json& d) { std::vector<StructuredData> v; for (auto& p : d) v.push_back(Factory::TupleV({ p[0].get<int>(), p[1].get<int>() })); return Factory::Set(v); }

// what the model shows for one constituent
static json Shown(const RSModel& m, EntityUID u) {
  json j = { {"calculated", m.Calculations().WasCalculated(u)}, {"status", static_cast<int>(m.Calculations()(u))} };
  if (const auto d = m.Values().SDataFor(u); d.has_value()) j["value"] = rsconv::Canon(rsconv::ValueToJson(*d));
  if (const auto s = m.Values().StatementFor(u); s.has_value()) j["statement"] = *s;
  return j;
}
static json Project(const RSModel& m) {
  json items = json::array();
  for (const auto u : m.List()) {
    const auto& rs = m.GetRS(u); const auto& p = m.GetParse(u);
    json it = { {"uid", u}, {"alias", rs.alias}, {"def", rs.definition}, {"ok", p.status == semantic::ParsingStatus::VERIFIED}, {"shown", Shown(m, u)} };
    if (const auto* t = m.Values().TextFor(u); t != nullptr) { json ks = json::array(); for (const auto& kv : *t) ks.push_back({ kv.first, kv.second }); it["text"] = ks; }
    items.push_back(it);
  }
  return items;
}
static std::unique_ptr<RSModel> Reload(const RSModel& m, JSON* doc = nullptr) { JSON j = m; if (doc) *doc = j; auto c = std::make_unique<RSModel>(); j.get_to(*c); return c; }

struct Live { std::unique_ptr<RSModel> m; };
static void StartModel(RSModel& m, bool withStruct, bool late) {
  g_uids = { 1 }; m.Emplace(CstType::base);
  if (withStruct) { g_uids = { 2 }; m.Emplace(CstType::structured, "ℬ(X1×X1)"); }
  g_uids = { 3 }; m.Emplace(CstType::term, late ? "X2" : "X1"); g_uids = { 4 }; m.Emplace(CstType::term, "D1");
  m.Values().AddBasicElement(1, "e1"); m.Values().AddBasicElement(1, "e2");
  if (withStruct) (void)m.Values().SetStructureData(2, Factory::Set({ Factory::TupleV({ 1, 1 }), Factory::TupleV({ 1, 2 }) }));
}
static void Apply(RSModel& m, const json& op) {
  const std::string o = op["op"]; const EntityUID u = op["u"].get<EntityUID>();
  g_uids.clear();
  if (o == "Emplace") { g_uids.push_back(op["fresh"].get<EntityUID>()); m.Emplace(op["k"] == "axiom" ? CstType::axiom : op["k"] == "base" ? CstType::base : CstType::term, DefText(op["d"])); }
  else if (o == "Erase") m.Erase(u);
  else if (o == "SetExpression") m.SetExpressionFor(u, DefText(op["d"]));
  else if (o == "AddBasicElement") m.Values().AddBasicElement(u, "new");
  else if (o == "SetBasicText") m.Values().SetBasicText(u, TextOf(op["ks"]));
  else if (o == "SetStructureData") (void)m.Values().SetStructureData(u, PairsOf(op["data"]));
  else if (o == "ResetDataFor") m.Values().ResetDataFor(u);
  else if (o == "Calculate") m.Calculations().Calculate(u);
  else if (o == "RecalculateAll") m.Calculations().RecalculateAll();
}

static void Handle(const json& c, vh::Report& r) {
  auto m = std::make_unique<RSModel>();
  StartModel(*m, c["preset"] == "struct", c["preset"] == "late");
  std::string last;
  for (const auto& op : c["hist"]) { Apply(*m, op); last = op["op"]; }
  const json wit = { {"preset", c["preset"]}, {"hist", c["hist"]} };
  const auto& obs = c["obs"];
  // ---- content conformance (drift level): order, aliases, verdicts, base keys
  {
    ++r.checks; std::string diff; size_t i = 0;
    for (const auto u : m->List()) {
      if (i >= obs["items"].size()) { diff = "count"; break; }
      const auto& e = obs["items"][i++];
      if (static_cast<EntityUID>(e["uid"].get<int>()) != u) { diff = "order"; break; }
      if (m->GetRS(u).alias != e["alias"].get<std::string>()) { diff = "alias"; break; }
      if ((m->GetParse(u).status == semantic::ParsingStatus::VERIFIED) != e["ok"].get<bool>()) { diff = "verdict of " + e["alias"].get<std::string>(); break; }
      if (e["kind"] == "base") { std::set<int> ks; if (const auto d = m->Values().SDataFor(u)) for (const auto& el : d->B()) ks.insert(el.E().Value()); if (ks != vh::IntSet(e["keys"])) { diff = "base keys"; break; } }
    }
    if (diff.empty() && i != obs["items"].size()) diff = "count";
    if (!diff.empty()) { r.Drift("C11", "content differs from model: " + diff, wit); return; }
  }
  // do all base sets carry the keys 1..n?  (otherwise save/load renumbers them: known finding K3, which would also
  // corrupt the "reloaded copy" oracle of C11)
  bool contiguous = true;
  for (const auto& e : obs["items"]) if (e["kind"] == "base") { int n = 0; for (auto& k : e["keys"]) { (void)k; ++n; } for (auto& k : e["keys"]) if (k.get<int>() > n) contiguous = false; }
  // ---- C11: every constituent that shows a calculated value shows the value a full recalculation would give
  if (On("C11")) {
    auto copy = Reload(*m); copy->Calculations().RecalculateAll();       // the statement's own oracle: a reloaded copy, recalculated
    size_t i = 0;
    for (const auto u : m->List()) {
      const auto& e = obs["items"][i++];
      if (e["kind"] == "base" || e["kind"] == "structured") continue;
      ++r.checks;
      const json shown = Shown(*m, u), fresh = Shown(*copy, u);
      const bool showsValue = shown["calculated"].get<bool>() && (shown.contains("value") || shown.contains("statement"));
      if (!showsValue) {
        if (last == "RecalculateAll" && e["hasFresh"].get<bool>()) r.Violation("C11", "RecalculateAll left a computable constituent without value", wit, { {"alias", e["alias"]} });
        continue;
      }
      const json sv = shown.contains("value") ? shown["value"] : shown["statement"];
      if (!e["hasFresh"].get<bool>()) { r.Violation("C11", "shows a calculated value that is no longer computable", wit, { {"alias", e["alias"]}, {"shown", sv} }); continue; }
      const json expect = e["fresh"][0].is_boolean() ? e["fresh"][0] : rsconv::Canon(e["fresh"][0]);
      if (sv != expect) r.Violation("C11", "stale calculated value", wit, { {"alias", e["alias"]}, {"shown", sv}, {"fresh", expect}, {"after", last} });
      else { const json fv = fresh.contains("value") ? fresh["value"] : fresh.contains("statement") ? fresh["statement"] : json();
        if (contiguous && fv != sv) r.Violation("C11", "shown value differs from a recalculated reloaded copy", wit, { {"alias", e["alias"]}, {"shown", sv}, {"copy", fv} }); }
    }
  }
  // ---- C10 (models): data, calculated flags and analysis survive save / load, and the document is stable
  if (On("C10")) {
    ++r.checks;
    JSON j1; std::unique_ptr<RSModel> copy;
    try { copy = Reload(*m, &j1); } catch (const std::exception& ex) { r.Violation("C10", "saved model does not load", wit, { {"what", ex.what()} }); }
    if (copy) {
      const json a = Project(*m), b = Project(*copy);
      if (a != b) {
        std::string field = "count";
        for (size_t k = 0; k < a.size() && k < b.size(); ++k) for (auto& [key, v] : a[k].items()) if (b[k][key] != v) { field = a[k]["alias"].get<std::string>() + "." + key; goto found; }
        found:
        const bool keyLoss = field.find(".text") != std::string::npos || field.find(".shown") != std::string::npos;
        if (keyLoss && !contiguous) r.Violation("C10", "non-contiguous interpretation keys renumbered by save/load", wit, { {"field", field} });
        else r.Violation("C10", keyLoss ? "model data changed by save/load" : "model content changed by save/load", wit, { {"field", field}, {"before", a}, {"after", b} });
      } else { JSON j2 = *copy; if (j1 != j2) r.Violation("C10", "saving the loaded model gives a different document", wit); }
    }
  }
  if (c["hist"].size() >= 2) r.NonTrivial(c["hist"].dump());
  if ((r.cases % 9973) == 9) r.Sample(c);
}

int main(int argc, char** argv) {
  vh::Args args(argc, argv);
  { std::stringstream ss(args.get("props")); std::string p; while (std::getline(ss, p, ',')) if (!p.empty()) g_props.insert(p); }
  InstallHook();
  vh::IsoOptions iso; iso.faultProperty = "C11"; iso.batch = 1000; iso.watchdogSeconds = 20;
  return vh::Main(argc, argv, Handle, true, iso);
}
