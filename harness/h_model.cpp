// C11 (no stale calculated value) and the model half of C10 against tla/Model.tla (histories from Gen_Model).
#include "rsconv.hpp"
#include "rslang_text.hpp"
#include "ccl/semantic/RSModel.h"
#include "ccl/tools/JSON.h"
#include "ccl/tools/EntityGenerator.h"

#include <deque>
#include <random>

using vh::json;
using namespace ccl;
using semantic::CstType;
using semantic::RSModel;
using object::StructuredData;
using object::Factory;
using JSON = nlohmann::ordered_json;

static std::set<std::string> g_props;
static bool On(const char* p) { return g_props.empty() || g_props.count(p) > 0; }
static std::deque<EntityUID> g_uids;
static void InstallHook() {
  tools::EntityGenerator::verifSource = []() -> EntityUID {
    if (g_uids.empty()) return static_cast<EntityUID>(1000000 + std::rand() % 1000000);
    const auto u = g_uids.front(); g_uids.pop_front(); return u;
  };
}
static std::string DefText(const json& toks) { return toks.empty() ? std::string{} : rstext::Assemble(toks, true, 0).text; }
static std::string AsciiType(std::string s) {
  auto rep = [&](const std::string& a, const std::string& b) { size_t p; while ((p = s.find(a)) != std::string::npos) s.replace(p, a.size(), b); };
  rep("ℬ", "B"); rep("×", "*"); return s;
}
static semantic::TextInterpretation TextOf(const json& ks) { semantic::TextInterpretation ti; for (auto& k : ks) ti.SetInterpretantFor(k.get<int>(), "e" + std::to_string(k.get<int>())); return ti; }
static StructuredData PairsOf(const json& d) { std::vector<StructuredData> v; for (auto& p : d) { if (p.is_array()) v.push_back(Factory::TupleV({ p[0].get<int>(), p[1].get<int>() })); else v.push_back(Factory::Val(p.get<int>())); } return Factory::Set(v); }

// what the model shows for one constituent
static json Shown(const RSModel& m, EntityUID u) {
  json j = { {"calculated", m.Calculations().WasCalculated(u)}, {"status", static_cast<int>(m.Calculations()(u))} };
  if (const auto d = m.Values().SDataFor(u); d.has_value()) j["value"] = rsconv::Canon(rsconv::ValueToJson(*d));
  if (const auto s = m.Values().StatementFor(u); s.has_value()) j["statement"] = *s;
  return j;
}
static json Project(const RSModel& m) {
  json items = json::array();
  for (const auto u : m.List()) {
    const auto& rs = m.GetRS(u); const auto& p = m.GetParse(u);
    json it = { {"uid", u}, {"alias", rs.alias}, {"def", rs.definition}, {"ok", p.status == semantic::ParsingStatus::VERIFIED}, {"shown", Shown(m, u)} };
    if (const auto* t = m.Values().TextFor(u); t != nullptr) { json ks = json::array(); for (const auto& kv : *t) ks.push_back({ kv.first, kv.second }); it["text"] = ks; }
    items.push_back(it);
  }
  return items;
}
static std::unique_ptr<RSModel> Reload(const RSModel& m, JSON* doc = nullptr) { JSON j = m; if (doc) *doc = j; auto c = std::make_unique<RSModel>(); j.get_to(*c); return c; }

struct Live { std::unique_ptr<RSModel> m; };
static void StartModel(RSModel& m, bool withStruct, bool late, bool func) {
  g_uids = { 1 }; m.Emplace(CstType::base);
  if (withStruct) { g_uids = { 2 }; m.Emplace(CstType::structured, "ℬ(X1×X1)"); }
  if (func) { g_uids = { 2 }; m.Emplace(CstType::function, "[a∈ℬ(X1)] a∪X1"); }
  g_uids = { 3 }; m.Emplace(CstType::term, late ? "X2" : func ? "F1[X1]" : "X1"); g_uids = { 4 }; m.Emplace(CstType::term, "D1");
  m.Values().AddBasicElement(1, "e1"); m.Values().AddBasicElement(1, "e2");
  if (withStruct) (void)m.Values().SetStructureData(2, Factory::Set({ Factory::TupleV({ 1, 1 }), Factory::TupleV({ 1, 2 }) }));
}
static void Apply(RSModel& m, const json& op) {
  const std::string o = op["op"]; const EntityUID u = op["u"].get<EntityUID>();
  g_uids.clear();
  if (o == "Emplace") { g_uids.push_back(op["fresh"].get<EntityUID>()); m.Emplace(op["k"] == "axiom" ? CstType::axiom : op["k"] == "base" ? CstType::base : op["k"] == "structured" ? CstType::structured : CstType::term, DefText(op["d"])); }
  else if (o == "Erase") m.Erase(u);
  else if (o == "SetExpression") m.SetExpressionFor(u, DefText(op["d"]));
  else if (o == "AddBasicElement") m.Values().AddBasicElement(u, "new");
  else if (o == "SetBasicText") m.Values().SetBasicText(u, TextOf(op["ks"]));
  else if (o == "SetStructureData") (void)m.Values().SetStructureData(u, PairsOf(op["data"]));
  else if (o == "ResetDataFor") m.Values().ResetDataFor(u);
  else if (o == "Calculate") m.Calculations().Calculate(u);
  else if (o == "RecalculateAll") m.Calculations().RecalculateAll();
}

static void Handle(const json& c, vh::Report& r) {
  auto m = std::make_unique<RSModel>();
  StartModel(*m, c["preset"] == "struct", c["preset"] == "late" || c["preset"] == "lates", c["preset"] == "func");
  std::string last;
  for (const auto& op : c["hist"]) { Apply(*m, op); last = op["op"]; r.Count("call." + last); }
  const json wit = { {"preset", c["preset"]}, {"hist", c["hist"]} };
  const auto& obs = c["obs"];
  // ---- content conformance (drift level): order, aliases, verdicts, base keys
  {
    ++r.checks; std::string diff; size_t i = 0;
    for (const auto u : m->List()) {
      if (i >= obs["items"].size()) { diff = "count"; break; }
      const auto& e = obs["items"][i++];
      if (static_cast<EntityUID>(e["uid"].get<int>()) != u) { diff = "order"; break; }
      if (m->GetRS(u).alias != e["alias"].get<std::string>()) { diff = "alias"; break; }
      if ((m->GetParse(u).status == semantic::ParsingStatus::VERIFIED) != e["ok"].get<bool>()) { diff = "verdict of " + e["alias"].get<std::string>(); break; }
      if (e["kind"] == "base") { std::set<int> ks; if (const auto d = m->Values().SDataFor(u)) for (const auto& el : d->B()) ks.insert(el.E().Value()); if (ks != vh::IntSet(e["keys"])) { diff = "base keys"; break; } }
    }
    if (diff.empty() && i != obs["items"].size()) diff = "count";
    if (!diff.empty()) { r.Drift("C11", "content differs from model: " + diff, wit); return; }
  }
  // do all base sets carry the keys 1..n?  (otherwise save/load renumbers them: known finding K3, which would also
  // corrupt the "reloaded copy" oracle of C11)
  bool contiguous = true;
  for (const auto& e : obs["items"]) if (e["kind"] == "base") { int n = 0; for (auto& k : e["keys"]) { (void)k; ++n; } for (auto& k : e["keys"]) if (k.get<int>() > n) contiguous = false; }
  // ---- C11: every constituent that shows a calculated value shows the value a full recalculation would give
  if (On("C11")) {
    auto copy = Reload(*m); copy->Calculations().RecalculateAll();       // the statement's own oracle: a reloaded copy, recalculated
    size_t i = 0;
    for (const auto u : m->List()) {
      const auto& e = obs["items"][i++];
      if (e["kind"] == "base" || e["kind"] == "structured") continue;
      ++r.checks;
      const json shown = Shown(*m, u), fresh = Shown(*copy, u);
      const bool showsValue = shown["calculated"].get<bool>() && (shown.contains("value") || shown.contains("statement"));
      if (!showsValue) {
        if (last == "RecalculateAll" && e["hasFresh"].get<bool>()) r.Violation("C11", "RecalculateAll left a computable constituent without value", wit, { {"alias", e["alias"]} });
        continue;
      }
      const json sv = shown.contains("value") ? shown["value"] : shown["statement"];
      if (!e["hasFresh"].get<bool>()) { r.Violation("C11", "shows a calculated value that is no longer computable", wit, { {"alias", e["alias"]}, {"shown", sv} }); continue; }
      const json expect = e["fresh"][0].is_boolean() ? e["fresh"][0] : rsconv::Canon(e["fresh"][0]);
      if (sv != expect) r.Violation("C11", "stale calculated value", wit, { {"alias", e["alias"]}, {"shown", sv}, {"fresh", expect}, {"after", last} });
      else { const json fv = fresh.contains("value") ? fresh["value"] : fresh.contains("statement") ? fresh["statement"] : json();
        if (contiguous && fv != sv) r.Violation("C11", "shown value differs from a recalculated reloaded copy", wit, { {"alias", e["alias"]}, {"shown", sv}, {"copy", fv} }); }
    }
  }
  // ---- C10 (models): data, calculated flags and analysis survive save / load, and the document is stable
  if (On("C10")) {
    ++r.checks;
    JSON j1; std::unique_ptr<RSModel> copy;
    try { copy = Reload(*m, &j1); } catch (const std::exception& ex) { r.Violation("C10", "saved model does not load", wit, { {"what", ex.what()} }); }
    if (copy) {
      const json a = Project(*m), b = Project(*copy);
      if (a != b) {
        std::string field = "count";
        for (size_t k = 0; k < a.size() && k < b.size(); ++k) for (auto& [key, v] : a[k].items()) if (b[k][key] != v) { field = a[k]["alias"].get<std::string>() + "." + key; goto found; }
        found:
        const bool keyLoss = field.find(".text") != std::string::npos || field.find(".shown") != std::string::npos;
        if (keyLoss && !contiguous) r.Violation("C10", "non-contiguous interpretation keys renumbered by save/load", wit, { {"field", field} });
        else r.Violation("C10", keyLoss ? "model data changed by save/load" : "model content changed by save/load", wit, { {"field", field}, {"before", a}, {"after", b} });
      } else { JSON j2 = *copy; if (j1 != j2) r.Violation("C10", "saving the loaded model gives a different document", wit); }
    }
  }
  if (c["hist"].size() >= 2) r.NonTrivial(c["hist"].dump());
  if ((r.cases % 9973) == 9) r.Sample(c);
}

// ------------------------------------------------------------------ recording (direction B): long random histories
static json TLeaf(const char* id, const std::string& name) { return { {"id", id}, {"s", name}, {"n", 0}, {"ix", json::array()}, {"ch", json::array()} }; }
static json TNode(const char* id, json ch) { return { {"id", id}, {"s", ""}, {"n", 0}, {"ix", json::array()}, {"ch", std::move(ch)} }; }
struct MDef { json tree; std::string text; };
static MDef MakeMDef(int k, const std::string& n, const std::string& m) {
  const json N = TLeaf("GLOBAL", n), M = TLeaf("GLOBAL", m), a = TLeaf("LOCAL", "a");
  switch (k) {
  case 0: return { N, n };
  case 1: return { TNode("UNION", { N, M }), n + "∪" + m };
  case 2: return { TNode("SET_MINUS", { N, M }), n + "\\" + m };
  case 3: { json t = TNode("BIGPR", { TLeaf("GLOBAL", "S1") }); t["ix"] = { 1 }; return { t, "Pr1(S1)" }; }
  case 4: return { TNode("DECLARATIVE", { a, N, TNode("NOTIN", { a, M }) }), "D{a∈" + n + " | a∉" + m + "}" };
  case 5: return { TNode("DEBOOL", { N }), "debool(" + n + ")" };
  case 6: return { TNode("INTERSECTION", { N, M }), n + "∩" + m };
  default: return { TNode("BOOLEAN", { N }), "ℬ(" + n + ")" };
  }
}
static json ItemsOf(const RSModel& m) {
  json items = json::array();
  for (const auto u : m.List()) {
    const auto& rs = m.GetRS(u); const auto& p = m.GetParse(u);
    json it = { {"uid", u}, {"alias", rs.alias}, {"ok", p.status == semantic::ParsingStatus::VERIFIED}, {"keys", json::array()}, {"shows", false}, {"value", 0}, {"statement", false} };
    if (semantic::IsBaseSet(rs.type)) if (const auto d = m.Values().SDataFor(u)) for (const auto& el : d->B()) it["keys"].push_back(el.E().Value());
    if (m.Calculations().WasCalculated(u) && !semantic::IsBaseNotion(rs.type)) {
      if (const auto d = m.Values().SDataFor(u); d.has_value()) { it["shows"] = true; it["value"] = rsconv::Canon(rsconv::ValueToJson(*d)); }
      else if (const auto st = m.Values().StatementFor(u); st.has_value()) { it["shows"] = true; it["statement"] = *st; }
    }
    items.push_back(it);
  }
  return items;
}
static int Record(const vh::Args& args) {
  const long traces = args.num("record", 5), steps = args.num("steps", 40);
  std::mt19937 g(static_cast<unsigned>(args.num("seed", 1)));
  std::ofstream out(args.get("trace")); vh::Report rep; long events = 0;
  static const char* names[] = { "X1", "X1", "D1", "D2", "D3", "X2", "S1", "D4" };
  for (long t = 0; t < traces; ++t) {
    out << json{ {"e", "Reset"} }.dump() << std::endl; ++events;
    auto m = std::make_unique<RSModel>(); EntityUID counter = 0;
    auto emit = [&](json ev) { ev["items"] = ItemsOf(*m); out << ev.dump() << std::endl; ++events; };
    auto emplace = [&](const char* kind, CstType type, const json& tree, const std::string& text) {
      g_uids.clear(); g_uids.push_back(++counter); const auto got = m->Emplace(type, text);
      emit({ {"e", "Emplace"}, {"k", kind}, {"def", tree}, {"fresh", got} }); };
    const json noDef = { {"id", "NODEF"}, {"s", ""}, {"n", 0}, {"ix", json::array()}, {"ch", json::array()} };
    emplace("base", CstType::base, noDef, "");
    const EntityUID x1 = 1;
    if (g() % 2) { const json dom = TNode("BOOLEAN", { TNode("DECART", { TLeaf("GLOBAL", "X1"), TLeaf("GLOBAL", "X1") }) }); emplace("structured", CstType::structured, dom, "ℬ(X1×X1)"); }
    for (int i = 0; i < 2; ++i) { m->Values().AddBasicElement(x1, "e"); emit({ {"e", "AddBasicElement"}, {"u", x1} }); }
    for (long st = 0; st < steps; ++st) {
      std::vector<EntityUID> all, bases, structs, calc; for (const auto u : m->List()) { all.push_back(u); const auto ty = m->GetRS(u).type;
        if (semantic::IsBaseSet(ty)) bases.push_back(u); else if (ty == CstType::structured) structs.push_back(u); else calc.push_back(u); }
      auto pick = [&](const std::vector<EntityUID>& v) { return v[g() % v.size()]; };
      // names: mostly constituents that exist and denote sets (so that most definitions type-check), sometimes any name of the pool
      auto name = [&]() -> std::string { if (g() % 5 == 0) return names[g() % 8]; const auto u = pick(all); const auto ty = m->GetRS(u).type;
        return (ty == CstType::axiom || ty == CstType::structured) ? std::string("X1") : m->GetRS(u).alias; };
      const int w = static_cast<int>(g() % 100);
      if (w < 16 && all.size() < 8) { const auto d = MakeMDef(static_cast<int>(g() % 8), name(), name()); emplace("term", CstType::term, d.tree, d.text); }
      else if (w < 19 && all.size() < 8) emplace("base", CstType::base, noDef, "");
      else if (w < 24 && all.size() < 8) { const auto n1 = name(), n2 = name(); emplace("axiom", CstType::axiom, TNode("EQUAL", { TLeaf("GLOBAL", n1), TLeaf("GLOBAL", n2) }), n1 + "=" + n2); }
      else if (w < 30) { if (all.size() <= 1) { --st; continue; } auto u = pick(all); if (u == x1) { --st; continue; } (void)m->Erase(u); emit({ {"e", "Erase"}, {"u", u} }); }
      else if (w < 44) { if (calc.empty()) { --st; continue; } const auto u = pick(calc); if (m->GetRS(u).type != CstType::term) { --st; continue; }
        const auto d = MakeMDef(static_cast<int>(g() % 8), name(), name()); (void)m->SetExpressionFor(u, d.text); emit({ {"e", "SetExpression"}, {"u", u}, {"def", d.tree} }); }
      else if (w < 52) { const auto u = pick(bases); size_t n = 0; if (const auto d = m->Values().SDataFor(u)) n = static_cast<size_t>(d->B().Cardinality()); if (n >= 3) { --st; continue; }
        m->Values().AddBasicElement(u, "n"); emit({ {"e", "AddBasicElement"}, {"u", u} }); }
      else if (w < 62) { const auto u = pick(bases); json ks = json::array(); for (int k = 1; k <= 3; ++k) if (g() % 2) ks.push_back(k);
        m->Values().SetBasicText(u, TextOf(ks)); emit({ {"e", "SetBasicText"}, {"u", u}, {"ks", ks} }); }
      else if (w < 70) { if (structs.empty()) { --st; continue; } const auto u = pick(structs); json data = json::array(); for (int a = 1; a <= 3; ++a) for (int b = 1; b <= 3; ++b) if (g() % 4 == 0) data.push_back({ a, b });
        (void)m->Values().SetStructureData(u, PairsOf(data)); emit({ {"e", "SetStructureData"}, {"u", u}, {"data", data} }); }
      else if (w < 74) { std::vector<EntityUID> bs = bases; bs.insert(bs.end(), structs.begin(), structs.end()); const auto u = pick(bs); m->Values().ResetDataFor(u); emit({ {"e", "ResetDataFor"}, {"u", u} }); }
      else if (w < 90) { if (calc.empty()) { --st; continue; } const auto u = pick(calc); m->Calculations().Calculate(u); emit({ {"e", "Calculate"}, {"u", u} }); }
      else { m->Calculations().RecalculateAll(); emit({ {"e", "RecalculateAll"} }); }
    }
    ++rep.cases;
  }
  rep.counters["events"] = events; rep.counters["traces"] = traces;
  rep.Write(args.get("out"));
  return 0;
}

int main(int argc, char** argv) {
  vh::Args args(argc, argv);
  if (args.has("record")) { InstallHook(); return vh::RunRecorder(args.get("trace"), args.get("out"), [&]() { return Record(args); }, 1800); }
  { std::stringstream ss(args.get("props")); std::string p; while (std::getline(ss, p, ',')) if (!p.empty()) g_props.insert(p); }
  InstallHook();
  vh::IsoOptions iso; iso.faultProperty = "C11"; iso.batch = 1000; iso.watchdogSeconds = 90;
  return vh::Main(argc, argv, Handle, true, iso);
}
