// C14: ccl::graph::CGraph / UpdatableGraph against tla/CGraph.tla
//   default        : replay TLC-generated histories (Gen_C14) and compare every public query
//   --record N     : drive random histories on the real object and log one ndjson event per call (Trace_C14)
#include "vh.hpp"
#include "ccl/graph/CGraph.h"

#include <random>

using vh::json;
using namespace ccl;
using graph::CGraph;
using graph::UpdatableGraph;

template<class C> static std::set<int> T(const C& c) { std::set<int> r; for (auto x : c) r.insert(static_cast<int>(x)); return r; }
static SetOfEntities SE(const json& a) { SetOfEntities s; for (auto& x : a) s.insert(x.get<EntityUID>()); return s; }
static json J(const std::set<int>& s) { json a = json::array(); for (int x : s) a.push_back(x); return a; }

struct Driver {
  SetOfEntities answer;   // what the updater callback returns next
  UpdatableGraph g{ [this](EntityUID) { return answer; } };
  void Apply(const json& op) {
    const std::string o = op["op"]; EntityUID a = op["a"], b = op["b"];
    if (o == "AddItem") g.AddItem(a);
    else if (o == "EraseItem") g.EraseItem(a);
    else if (o == "AddConnection") g.AddConnection(a, b);
    else if (o == "SetItemInputs") g.SetItemInputs(a, SE(op["s"]));
    else if (o == "Clear") g.Clear();
    else if (o == "Invalidate") g.Invalidate();
    else if (o == "SetValid") g.SetValid();
    else if (o == "UpdateFor") { answer = SE(op["s"]); g.UpdateFor(a); }
  }
};

// topological order must be a permutation of the live items and, if acyclic, respect every edge
static std::string CheckTopo(const CGraph& g, const std::set<int>& nodes, const std::set<std::pair<int,int>>& E, bool hasLoop) {
  auto order = g.TopologicalOrder();
  if (T(order) != nodes || order.size() != nodes.size()) return "TopologicalOrder.permutation";
  auto inv = g.InverseTopologicalOrder();
  auto rev = order; std::reverse(rev.begin(), rev.end());
  if (T(inv) != nodes || inv.size() != nodes.size()) return "InverseTopologicalOrder.permutation";
  std::map<int,int> pos; int k = 0; for (auto x : order) pos[static_cast<int>(x)] = k++;
  std::map<int,int> ipos; k = 0; for (auto x : inv) ipos[static_cast<int>(x)] = k++;
  if (!hasLoop) for (auto& e : E) if (e.first != e.second) {
    if (pos[e.first] > pos[e.second]) return "TopologicalOrder.edge";
    if (ipos[e.first] < ipos[e.second]) return "InverseTopologicalOrder.edge";
  }
  return "";
}
static std::string CheckSort(const CGraph& g, const std::set<int>& nodes, const std::set<int>& X) {
  SetOfEntities in; for (int x : X) in.insert(static_cast<EntityUID>(x));
  auto sorted = g.Sort(in);
  std::set<int> expect; for (int x : X) if (nodes.count(x)) expect.insert(x);
  if (T(sorted) != expect || sorted.size() != expect.size()) return "Sort.members";
  auto order = g.TopologicalOrder();
  std::map<int,int> pos; int k = 0; for (auto x : order) pos[static_cast<int>(x)] = k++;
  for (size_t i = 1; i < sorted.size(); ++i) if (pos[static_cast<int>(sorted[i-1])] > pos[static_cast<int>(sorted[i])]) return "Sort.order";
  return "";
}

static void Replay(const json& c, vh::Report& r) {
  Driver d;
  // every query is also issued between the calls (a user looks at the graph while editing it): whatever the graph keeps from
  // an earlier answer must not show in a later one.  Even-numbered cases do it, odd ones query only at the end.
  const bool between = (r.cases % 2) == 0;
  for (auto& op : c["hist"]) { d.Apply(op);
    if (between) { (void)d.g.TopologicalOrder(); (void)d.g.InverseTopologicalOrder(); (void)d.g.GetAllLoopsItems(); (void)d.g.HasLoop(); (void)d.g.ConnectionsCount(); (void)d.g.ItemsCount(); } }
  const auto& g = d.g;
  const auto& obs = c["obs"];
  std::string why; json detail;
  auto fail = [&](const std::string& w, json det = json()) { if (why.empty()) { why = w; detail = std::move(det); } };
  auto nodes = vh::IntSet(obs["nodes"]);
  std::set<std::pair<int,int>> E; for (auto& e : obs["edges"]) E.insert({ e[0].get<int>(), e[1].get<int>() });
  int maxId = 0; for (auto& cl : obs["closure"]) for (auto& x : cl["x"]) maxId = std::max(maxId, x.get<int>());
  ++r.checks;
  if (static_cast<int>(nodes.size()) != g.ItemsCount()) fail("ItemsCount", { {"got", g.ItemsCount()} });
  for (int i = 0; i <= maxId + 1; ++i) if (g.Contains(i) != (nodes.count(i) > 0)) fail("Contains", { {"item", i} });
  if (g.ConnectionsCount() != obs["nEdges"].get<int>()) fail("ConnectionsCount", { {"got", g.ConnectionsCount()} });
  for (int i = 0; i <= maxId + 1; ++i) for (int j = 0; j <= maxId + 1; ++j)
    if (g.ConnectionExists(i, j) != (E.count({ i, j }) > 0)) fail("ConnectionExists", { {"src", i}, {"dst", j} });
  if (g.IsBroken() != obs["invalid"].get<bool>()) fail("IsBroken");
  if (g.HasLoop() != obs["hasLoop"].get<bool>()) fail("HasLoop", { {"got", g.HasLoop()} });
  {
    std::set<std::set<int>> exp, got; size_t n = 0;
    for (auto& grp : obs["loops"]) exp.insert(vh::IntSet(grp));
    for (auto& grp : g.GetAllLoopsItems()) { got.insert(T(grp)); ++n; }
    if (exp != got || n != got.size()) { json gj = json::array(); for (auto& s : got) gj.push_back(J(s)); fail("GetAllLoopsItems", { {"got", gj}, {"expected", obs["loops"]} }); }
  }
  for (auto& pn : obs["inputs"]) if (T(g.InputsFor(pn["n"].get<EntityUID>())) != vh::IntSet(pn["v"])) fail("InputsFor", { {"item", pn["n"]} });
  {
    std::set<std::pair<int,int>> R; for (auto& e : obs["reach"]) R.insert({ e[0].get<int>(), e[1].get<int>() });
    for (int a = 1; a <= maxId; ++a) for (int b = 1; b <= maxId; ++b) {
      if (a != b) { if (g.IsReachableFrom(b, a) != (R.count({ a, b }) > 0)) fail("IsReachableFrom", { {"source", a}, {"dest", b} }); }
      else if (E.count({ a, a }) && !g.IsReachableFrom(a, a)) fail("IsReachableFrom.self", { {"item", a} });
    }
  }
  for (auto& cl : obs["closure"]) {
    SetOfEntities X = SE(cl["x"]);
    if (T(g.ExpandOutputs(X)) != vh::IntSet(cl["out"])) fail("ExpandOutputs", { {"x", cl["x"]}, {"got", J(T(g.ExpandOutputs(X)))} });
    if (T(g.ExpandInputs(X)) != vh::IntSet(cl["inn"])) fail("ExpandInputs", { {"x", cl["x"]}, {"got", J(T(g.ExpandInputs(X)))} });
    auto w = CheckSort(g, nodes, vh::IntSet(cl["x"])); if (!w.empty()) fail(w, { {"x", cl["x"]} });
  }
  { auto w = CheckTopo(g, nodes, E, obs["hasLoop"].get<bool>()); if (!w.empty()) fail(w); }
  if (!why.empty()) r.Violation("C14", why, { {"hist", c["hist"]} }, detail);
  if (!E.empty()) r.NonTrivial(c["hist"].dump());   // non-trivial: the final graph has at least one edge
  r.Sample(c);
}

// ------------------------------------------------------------------ recording (direction B)
static json Observe(const UpdatableGraph& g, int nIds, std::mt19937& rng) {
  json o;
  std::set<int> nodes; std::set<std::pair<int,int>> E;
  for (int i = 1; i <= nIds; ++i) if (g.Contains(i)) nodes.insert(i);
  o["nodes"] = J(nodes);
  json ej = json::array();
  for (int i = 1; i <= nIds; ++i) for (int j = 1; j <= nIds; ++j) if (g.ConnectionExists(i, j)) ej.push_back({ i, j });
  o["edges"] = ej;
  o["nItems"] = g.ItemsCount(); o["nEdges"] = g.ConnectionsCount(); o["invalid"] = g.IsBroken(); o["hasLoop"] = g.HasLoop();
  json lj = json::array(); for (auto& grp : g.GetAllLoopsItems()) lj.push_back(J(T(grp))); o["loops"] = lj;
  json tj = json::array(); for (auto x : g.TopologicalOrder()) tj.push_back(static_cast<int>(x)); o["topo"] = tj;
  // a few randomly chosen queries per step (the full query space is covered by direction A)
  std::uniform_int_distribution<int> id(1, nIds), mask(0, (1 << nIds) - 1);
  int m = mask(rng) & mask(rng); std::set<int> X; SetOfEntities XE;
  for (int i = 1; i <= nIds; ++i) if (m & (1 << (i - 1))) { X.insert(i); XE.insert(static_cast<EntityUID>(i)); }
  o["qx"] = J(X); o["qout"] = J(T(g.ExpandOutputs(XE))); o["qinn"] = J(T(g.ExpandInputs(XE)));
  json sj = json::array(); for (auto x : g.Sort(XE)) sj.push_back(static_cast<int>(x)); o["qsort"] = sj;
  int a = id(rng), b = id(rng);
  o["qa"] = a; o["qb"] = b; o["qreach"] = g.IsReachableFrom(b, a); o["qin"] = J(T(g.InputsFor(a)));
  return o;
}

static int Record(const vh::Args& args) {
  const long traces = args.num("record", 10), steps = args.num("steps", 100); const int nIds = static_cast<int>(args.num("ids", 6));
  std::mt19937 rng(static_cast<unsigned>(args.num("seed", 1)));
  std::ofstream out(args.get("trace"));
  vh::Report rep; long events = 0;
  for (long t = 0; t < traces; ++t) {
    out << json{ {"e", "Reset"} }.dump() << "\n"; ++events;
    Driver d;
    std::uniform_int_distribution<int> id(1, nIds), pick(0, 99), mask(0, (1 << nIds) - 1);
    for (long s = 0; s < steps; ++s) {
      json op; int p = pick(rng);
      auto subset = [&]() { int m = mask(rng) & mask(rng); json a = json::array(); for (int i = 1; i <= nIds; ++i) if (m & (1 << (i - 1))) a.push_back(i); return a; };
      if (p < 12) op = { {"op", "AddItem"}, {"a", id(rng)}, {"b", 0}, {"s", json::array()} };
      else if (p < 27) op = { {"op", "EraseItem"}, {"a", id(rng)}, {"b", 0}, {"s", json::array()} };
      else if (p < 62) op = { {"op", "AddConnection"}, {"a", id(rng)}, {"b", id(rng)}, {"s", json::array()} };
      else if (p < 80) op = { {"op", "SetItemInputs"}, {"a", id(rng)}, {"b", 0}, {"s", subset()} };
      else if (p < 82) op = { {"op", "Clear"}, {"a", 0}, {"b", 0}, {"s", json::array()} };
      else if (p < 86) op = { {"op", "Invalidate"}, {"a", 0}, {"b", 0}, {"s", json::array()} };
      else if (p < 90) op = { {"op", "SetValid"}, {"a", 0}, {"b", 0}, {"s", json::array()} };
      else op = { {"op", "UpdateFor"}, {"a", id(rng)}, {"b", 0}, {"s", subset()} };
      d.Apply(op);
      json ev = op; ev["e"] = op["op"]; ev.erase("op"); ev["obs"] = Observe(d.g, nIds, rng);
      out << ev.dump() << std::endl; ++events;
    }
    ++rep.cases;
  }
  rep.counters["events"] = events; rep.counters["traces"] = traces;
  rep.Write(args.get("out"));
  return 0;
}

int main(int argc, char** argv) {
  vh::Args args(argc, argv);
  if (args.has("record")) return vh::RunRecorder(args.get("trace"), args.get("out"), [&]() { return Record(args); });
  // forked batches: a change that corrupts memory inside the graph must show as a fault of that case, not take the harness down
  vh::IsoOptions iso; iso.faultProperty = "C14"; iso.batch = 4000; iso.watchdogSeconds = 90;
  return vh::Main(argc, argv, Replay, true, iso);
}
