// C08 at text level (cases from Gen_C08t): rslang::TranslateRS on formal expressions and ManagedText::TranslateRaw on texts with
// references replace each whole-identifier occurrence of a mapped name and change nothing else.
#include "vh.hpp"
#include "rslang_text.hpp"
#include "ccl/rslang/RSExpr.h"
#include "ccl/lang/ManagedText.h"
#include "ccl/lang/Reference.h"
#include "ccl/Substitutes.hpp"

using vh::json;
using namespace ccl;

static StrSubstitutes MapOf(const json& pairs) { StrSubstitutes m; for (const auto& p : pairs) m.insert({ p[0].get<std::string>(), p[1].get<std::string>() }); return m; }
static std::string AtomText(const json& a) {
  const std::string k = a["k"];
  if (k == "plain") return a["s"].get<std::string>();
  return "@{" + a["s"].get<std::string>() + "|" + a["f"].get<std::string>() + "}";
}

static void Handle(const json& c, vh::Report& r) {
  const auto subst = MapOf(c["map"]);
  if (c["kind"] == "rs") {
    for (int spacing = 0; spacing < 2; ++spacing) {
      ++r.checks;
      const std::string text = rstext::Assemble(c["toks"], true, spacing).text;
      const std::string expect = rstext::Assemble(c["expect"], true, spacing).text;
      std::string got = text;
      long replaced = 0; for (size_t i = 0; i < c["toks"].size(); ++i) if (c["toks"][i] != c["expect"][i]) ++replaced;
      const auto count = rslang::TranslateRS(got, rslang::TFFactory::FilterGlobals(), CreateTranslator(subst));
      const json wit = { {"kind", "rs"}, {"text", text}, {"map", c["map"]} };
      if (got != expect) r.Violation("C08", "expression text after translation", wit, { {"got", got}, {"expected", expect} });
      else if (count != replaced) r.Drift("C08", "number of replacements reported", wit, { {"got", count}, {"expected", replaced} });
      // SubstituteGlobals is the same operation under another name
      std::string got2 = text; (void)rslang::SubstituteGlobals(got2, subst);
      if (got2 != expect) r.Violation("C08", "expression text after SubstituteGlobals", wit, { {"got", got2}, {"expected", expect} });
    }
    r.NonTrivial(c["toks"].dump() + c["map"].dump());
  } else {
    ++r.checks;
    std::string raw, expect;
    const auto tr = CreateTranslator(subst);
    for (size_t i = 0; i < c["atoms"].size(); ++i) {
      const auto& a = c["atoms"][i]; const auto& e = c["expect"][i];
      const std::string at = AtomText(a);
      if (!raw.empty()) { raw += ' '; expect += ' '; }
      raw += at;
      if (a == e) expect += at;                               // untouched atoms stay byte for byte
      else {                                                  // a translated reference is re-rendered in the library's canonical spelling
        auto ref = lang::Reference::Parse(at);
        if (!ref.IsEntity() || !ref.TranslateEntity(tr)) { r.Drift("C08", "reference atom not recognised as an entity reference", { {"atom", at} }); return; }
        expect += ref.ToString();
      }
    }
    lang::ManagedText text{ raw };
    text.TranslateRaw(tr);
    const json wit = { {"kind", "text"}, {"raw", raw}, {"map", c["map"]} };
    if (text.Raw() != expect) r.Violation("C08", "reference text after translation", wit, { {"got", text.Raw()}, {"expected", expect} });
    if (c["atoms"].size() >= 2) r.NonTrivial(raw + c["map"].dump());
  }
  if ((r.cases % 9973) == 5) r.Sample(c);
}

int main(int argc, char** argv) {
  vh::IsoOptions iso; iso.faultProperty = "C08"; iso.batch = 2000; iso.watchdogSeconds = 90;
  return vh::Main(argc, argv, Handle, true, iso);
}
