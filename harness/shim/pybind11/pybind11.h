// No-op stand-in for pybind11 so that pyconcept/src/pyconcept.cpp (plain C++ wrapper functions plus a module
// registration macro) compiles into the harness without Python.  Only what that file uses is provided.
#pragma once
namespace pybind11 {
struct module_ {
  struct Attr { template<class T> Attr& operator=(T&&) { return *this; } };
  template<class... A> module_& def(A&&...) { return *this; }
  Attr attr(const char*) { return {}; }
  Attr doc() { return {}; }
};
} // namespace pybind11
#define PYBIND11_MODULE(name, var) [[maybe_unused]] static void pybind11_init_##name(pybind11::module_& var)
