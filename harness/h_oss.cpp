// C19 (operation schema) against tla/OSS.tla (histories from Gen_OSS).
// The environment is upstream's own test double of the source manager (ccl/core/test/utils/FakeSourceManager.hpp), driven
// through its public triggers.  After the history: structure invariants on the real OSSchema, the statuses / contents the
// model predicts, the result of every successful Execute against ops::BinarySynthes on the parents' current schemas, and
// freshness after all pending changes have been announced.
#include "vh.hpp"
#include "rslang_text.hpp"
#include "FakeSourceManager.hpp"
#include "ccl/env/cclEnvironment.h"
#include "ccl/oss/OSSchema.h"
#include "ccl/ops/RSOperations.h"
#include "ccl/tools/EntityGenerator.h"
#include "ccl/tools/JSON.h"

#include <deque>

using vh::json;
using namespace ccl;
using semantic::CstType;
using semantic::RSForm;
using oss::OSSchema;
using oss::PictID;

static std::deque<EntityUID> g_uids; static EntityUID g_counter = 1000;
static void InstallHook() {
  tools::EntityGenerator::verifSource = []() -> EntityUID {
    if (!g_uids.empty()) { const auto u = g_uids.front(); g_uids.pop_front(); return u; }
    return ++g_counter;
  };
}

struct World {
  std::unique_ptr<OSSchema> oss;
  std::map<int, FakeTRS*> srcOf;                 // model source name -> source object (sources created by ConnectNew)
  std::map<const FakeTRS*, std::pair<int, int>> nameOf;   // source object -> (model source name, next base-set index)
  bool labelled{ false };                        // every base set carries its origin token as term text
  std::map<PictID, std::vector<PictID>> parentsAt;   // the parents every operation pictogram was inserted with (no call ever changes them)
  std::map<PictID, FakeTRS*> known;              // the source a pictogram's handle names (also while that source is closed)
  void Refresh() { for (const auto& pict : *oss) { const auto* h = oss->Src()(pict.uid); if (h == nullptr || h->empty()) known.erase(pict.uid); else if (h->src != nullptr) known[pict.uid] = &Mgr().DummyCast(*h->src); }
    for (auto it = known.begin(); it != known.end();) if (!oss->Contains(it->first)) it = known.erase(it); else ++it; }
  FakeTRS* Data(PictID p) { if (auto* s = Src(p); s != nullptr) return s; const auto* h = oss->Src()(p); if (h == nullptr || h->empty()) return nullptr; const auto it = known.find(p); return it == known.end() ? nullptr : it->second; }
  FakeSourceManager& Mgr() { return dynamic_cast<FakeSourceManager&>(Environment::Sources()); }
  FakeTRS* Src(PictID p) { const auto* h = oss->Src()(p); return (h != nullptr && h->src != nullptr) ? &Mgr().DummyCast(*h->src) : nullptr; }
  World() { Environment::Instance().SetSourceManager(std::make_unique<FakeSourceManager>()); oss = std::make_unique<OSSchema>(); }
  ~World() { oss.reset(); Environment::Instance().SetSourceManager(std::make_unique<SourceManager>()); }
};
static std::string StatusName(ops::Status s) {
  switch (s) { case ops::Status::undefined: return "undefined"; case ops::Status::defined: return "defined"; case ops::Status::done: return "done";
    case ops::Status::outdated: return "outdated"; default: return "broken"; }
}
static std::vector<EntityUID> BasesOf(const RSForm& f) { std::vector<EntityUID> v; for (const auto u : f.List()) if (f.GetRS(u).type == CstType::base) v.push_back(u); return v; }
static int TermsOf(const RSForm& f) { int n = 0; for (const auto u : f.List()) if (f.GetRS(u).type == CstType::term) ++n; return n; }
static std::string LabelText(int s, int k) { return "L" + std::to_string(s) + "_" + std::to_string(k); }
static json LabelOf(const RSForm& f, EntityUID u) {     // [source, k] parsed from the term text, [] when the base set carries none
  const std::string t = f.GetText(u).term.Text().Raw(); int s = 0, k = 0;
  if (std::sscanf(t.c_str(), "L%d_%d", &s, &k) == 2) return json::array({ s, k });
  return json::array();
}
static EntityUID AddLabelledBase(World& w, FakeTRS& src) {
  const auto u = src.schema.Emplace(CstType::base);
  auto& nk = w.nameOf[&src];
  if (w.labelled) (void)src.schema.SetTermFor(u, LabelText(nk.first, nk.second));
  ++nk.second;
  return u;
}
// what the user adds to the result of pictogram p: a term whose definition mentions no alias (so renumbering never changes it)
// and is unique to p (its depth)
static std::string UserTermFor(PictID p) { std::string s; for (PictID i = 0; i < p; ++i) s += "ℬ"; return s + "(Z)"; }

// ---- structure invariants of C19 on the real object
static std::string Structure(const OSSchema& o) {
  std::set<PictID> all; for (const auto& pict : o) { if (!all.insert(pict.uid).second) return "pictogram listed twice"; if (!o.Contains(pict.uid)) return "iteration yields a pictogram that is not contained"; }
  if (all.size() != o.size()) return "size differs from iteration";
  std::set<std::pair<int, int>> cells;
  for (const auto p : all) {
    const auto pos = o.Grid()(p);
    if (!pos.has_value()) return "pictogram without grid cell";
    if (!cells.insert({ pos->row, pos->column }).second) return "two pictograms in one grid cell";
    if (o.Src()(p) == nullptr) return "pictogram without source handle";
    const auto parents = o.Graph().ParentsOf(p);
    if (o.Ops()(p) != nullptr) {
      if (parents.size() != 2) return "operation pictogram without exactly two parents";
      if (parents[0] == parents[1]) return "operation pictogram with the same parent twice";
      for (const auto q : parents) if (!all.count(q)) return "parent does not exist";
    } else if (!parents.empty()) return "base pictogram with parents";
    for (const auto c : o.Graph().ChildrenOf(p)) if (!all.count(c)) return "child does not exist";
  }
  // acyclic: repeatedly remove pictograms all of whose parents are removed
  std::set<PictID> left = all; bool progress = true;
  while (progress) { progress = false; for (auto it = left.begin(); it != left.end();) { bool ready = true; for (const auto q : o.Graph().ParentsOf(*it)) if (left.count(q)) ready = false;
      if (ready) { it = left.erase(it); progress = true; } else ++it; } }
  if (!left.empty()) return "parent relation has a cycle";
  return "";
}
// the parent relation of an operation is fixed at its insertion: no later call (erasing another pictogram, loading the saved
// document, ...) may change which pictograms it is computed from, or their order
static std::string ParentsKept(World& w) {
  for (const auto& pict : *w.oss) if (w.oss->Ops()(pict.uid) != nullptr) {
    const auto it = w.parentsAt.find(pict.uid);
    if (it != w.parentsAt.end() && w.oss->Graph().ParentsOf(pict.uid) != it->second) return "parents of operation " + std::to_string(pict.uid) + " changed";
  }
  for (auto it = w.parentsAt.begin(); it != w.parentsAt.end();) if (!w.oss->Contains(it->first)) it = w.parentsAt.erase(it); else ++it;
  return "";
}
static json ViewOf(World& w) {
  json v = json::array(); std::set<PictID> all; for (const auto& pict : *w.oss) all.insert(pict.uid);
  for (const auto p : all) {
    const auto* h = w.oss->Src()(p); const auto* op = w.oss->Ops()(p);
    const auto pos = w.oss->Grid()(p);
    json it = { {"pid", p}, {"row", pos.has_value() ? pos->row : -1}, {"col", pos.has_value() ? pos->column : -1}, {"parents", w.oss->Graph().ParentsOf(p)}, {"isOp", op != nullptr}, {"hasData", h != nullptr && !h->empty()},
                {"linked", h != nullptr && h->src != nullptr}, {"status", StatusName(w.oss->Ops().StatusOf(p))}, {"broken", op != nullptr && op->broken}, {"outdated", op != nullptr && op->outdated},
                {"type", op == nullptr ? "" : op->type == ops::Type::rsMerge ? "merge" : op->type == ops::Type::rsSynt ? "synt" : "tba"}, {"n", 0}, {"terms", 0} };
    it["labels"] = json::array(); it["key"] = json::array();
    if (auto* s = w.Data(p); s != nullptr) { it["n"] = BasesOf(s->schema).size(); it["terms"] = TermsOf(s->schema);
      if (w.labelled) for (const auto u : BasesOf(s->schema)) it["labels"].push_back(LabelOf(s->schema, u)); }
    if (w.labelled && op != nullptr) if (const auto* eq = dynamic_cast<const ops::EquationOptions*>(op->options.get()); eq != nullptr && eq->size() == 1) {
      const auto parents = w.oss->Graph().ParentsOf(p); auto* s1 = w.Data(parents[0]); auto* s2 = w.Data(parents[1]);
      const auto kv = *eq->begin();
      if (s1 != nullptr && s2 != nullptr && s1->schema.Contains(kv.first) && s2->schema.Contains(kv.second)) it["key"] = json::array({ LabelOf(s1->schema, kv.first), LabelOf(s2->schema, kv.second) });
      else it["key"] = json::array({ "dangling" });
    }
    v.push_back(it);
  }
  return v;
}
// the statement's oracle: synthesis of the parents' current schemas plus the user's own additions (untracked constituents);
// the formal content is compared as a multiset of (kind, definition) modulo the alias numbering
static std::string Strip(const std::string& d) { std::string t; for (char ch : d) if (!std::isdigit(static_cast<unsigned char>(ch))) t += ch; return t; }
static std::multiset<std::string> Shape(const RSForm& f, bool trackedOnly) {
  std::multiset<std::string> m;
  for (const auto u : f.List()) { if (trackedOnly && !f.Mods().IsTracking(u)) continue; const auto& rs = f.GetRS(u); m.insert(std::to_string(static_cast<int>(rs.type)) + ":" + Strip(rs.definition)); }
  return m;
}
// "" when p's stored result is the synthesis of its parents' current schemas; "skip" when there is nothing to compare
static std::string ResultVsParents(World& w, PictID p, json& info) {
  const auto parents = w.oss->Graph().ParentsOf(p);
  auto* s1 = w.Data(parents[0]); auto* s2 = w.Data(parents[1]); auto* sp = w.Data(p);
  if (s1 == nullptr || s2 == nullptr || sp == nullptr) return "skip";
  const auto* opts = dynamic_cast<const ops::EquationOptions*>(w.oss->Ops()(p)->options.get());
  ops::BinarySynthes oracle{ s1->schema, s2->schema, opts == nullptr ? ops::EquationOptions{} : *opts };
  auto expect = oracle.Execute();
  if (!expect) return "the synthesis of the parents is not defined";
  if (Shape(sp->schema, true) != Shape(*expect, false)) {
    json got = json::array(); for (const auto u : sp->schema.List()) got.push_back(sp->schema.GetRS(u).alias + ":=" + sp->schema.GetRS(u).definition + (sp->schema.Mods().IsTracking(u) ? "" : " (user)"));
    json exp = json::array(); for (const auto u : expect->List()) exp.push_back(expect->GetRS(u).alias + ":=" + expect->GetRS(u).definition);
    info["result"] = got; info["synthesis"] = exp;
    return "differs";
  }
  return "";
}
static std::vector<std::string> OwnAdditions(World& w, PictID p);
static std::string RenameAliases(const std::string& text, const std::map<std::string, std::string>& map) {      // whole identifiers (letter + digits)
  std::string out; size_t i = 0;
  while (i < text.size()) {
    if (std::isupper(static_cast<unsigned char>(text[i])) && i + 1 < text.size() && std::isdigit(static_cast<unsigned char>(text[i + 1]))) {
      size_t j = i + 1; while (j < text.size() && std::isdigit(static_cast<unsigned char>(text[j]))) ++j;
      const auto name = text.substr(i, j - i); const auto it = map.find(name); out += it == map.end() ? name : it->second; i = j;
    } else out += text[i++];
  }
  return out;
}
static void CheckExecution(World& w, PictID p, const std::vector<std::string>& ownBefore, const json& wit, size_t step, vh::Report& r) {
  ++r.checks;
  json info = { {"step", step}, {"pid", p} };
  if (w.Src(p) == nullptr) { r.Violation("C19", "successful execution left a pictogram without attached source", wit, info); return; }
  const auto v = ResultVsParents(w, p, info);
  if (v == "differs") r.Violation("C19", "result of an execution differs from the synthesis of the parents' current schemas", wit, info);
  else if (v != "" && v != "skip") r.Violation("C19", "executed although " + v, wit, info);
  // the user's own additions to the previous result are carried over (a mention of a constituent that no longer exists
  // is marked by the aggregator, so the definitions are compared up to such marks)
  auto* sp = w.Src(p);
  size_t own = 0; for (const auto u : sp->schema.List()) if (!sp->schema.Mods().IsTracking(u)) ++own;
  if (own != ownBefore.size()) { info["before"] = ownBefore; r.Violation("C19", "the user's additions to the previous result were not carried over", wit, info); }
  else if (const auto now = OwnAdditions(w, p); now != ownBefore) { info["before"] = ownBefore; info["after"] = now; r.Violation("C19", "the user's additions to the previous result were carried over with other definitions", wit, info); }
}
// untracked constituents of the stored result = what the user added; a mention of another addition is replaced by that addition's
// own definition, so that the list does not depend on the alias numbering of the result
static std::vector<std::string> OwnAdditions(World& w, PictID p) {
  std::vector<std::string> v; auto* s = w.Data(p); if (s == nullptr) return v;
  std::map<std::string, std::string> own;
  for (const auto u : s->schema.List()) if (!s->schema.Mods().IsTracking(u)) own[s->schema.GetRS(u).alias] = "<" + s->schema.GetRS(u).definition + ">";
  for (const auto u : s->schema.List()) if (!s->schema.Mods().IsTracking(u)) v.push_back(RenameAliases(s->schema.GetRS(u).definition, own));
  std::sort(v.begin(), v.end());
  return v;
}
static void ExecuteChecked(World& w, PictID p, bool all, const json& wit, size_t step, vh::Report& r) {
  // remember which operations could be executed as part of this call (outdated parents are executed first)
  std::map<PictID, std::vector<std::string>> own; std::map<PictID, change::Hash> before;
  for (const auto& pict : *w.oss) if (w.oss->Ops()(pict.uid) != nullptr) { own[pict.uid] = OwnAdditions(w, pict.uid); before[pict.uid] = w.oss->Src()(pict.uid)->fullHash; }
  bool ok = false;
  if (all) { w.oss->Ops().ExecuteAll(); } else ok = w.oss->Ops().Execute(p);
  if (!all && ok) CheckExecution(w, p, own[p], wit, step, r);
}
static void Apply(World& w, const json& c, const json& wit, size_t step, vh::Report& r, bool check) {
  const std::string o = c["op"]; const PictID p = c["p"].get<PictID>();
  auto& ossRef = *w.oss;
  g_uids.clear();
  if (o == "InsertBase") { g_uids.push_back(c["new"].get<EntityUID>()); const auto* pict = ossRef.InsertBase(); if (pict == nullptr || pict->uid != c["new"].get<PictID>()) r.Drift("C19", "InsertBase gave another identifier", wit, { {"step", step} }); }
  else if (o == "InsertOperation") { g_uids.push_back(c["new"].get<EntityUID>()); const auto* pict = ossRef.InsertOperation(c["a"].get<PictID>(), c["b"].get<PictID>());
    if (pict != nullptr) w.parentsAt[pict->uid] = { c["a"].get<PictID>(), c["b"].get<PictID>() }; }
  else if (o == "Erase") {
    const bool leaf = ossRef.Contains(p) && ossRef.Graph().ChildrenOf(p).empty(); const auto sizeBefore = ossRef.size();
    const bool res = ossRef.Erase(p);
    if (check && res && !leaf) r.Violation("C19", "a pictogram that has children was erased", wit, { {"step", step}, {"pid", p} });
    if (check && !res && ossRef.size() != sizeBefore) r.Violation("C19", "refused erase changed the schema", wit, { {"step", step} });
  }
  else if (o == "ConnectNew") { if (!ossRef.Contains(p)) return; auto& src = w.Mgr().CreateNewRS(); w.srcOf[c["s"].get<int>()] = &src; w.nameOf[&src] = { c["s"].get<int>(), 1 };
    for (int i = 0; i < c["n"].get<int>(); ++i) (void)AddLabelledBase(w, src); src.TriggerSave();
    (void)ossRef.Src().ConnectPict2Src(p, src); }
  else if (o == "Edit") {
    auto* s = w.Data(p); if (s == nullptr) { r.Drift("C19", "edit of a pictogram without source", wit, { {"step", step} }); return; }
    const std::string k = c["kind"]; auto bases = BasesOf(s->schema);
    if (k == "addBase") (void)AddLabelledBase(w, *s);
    else if (k == "removeFirst") { if (!s->schema.Erase(bases.front())) r.Drift("C19", "removeFirst refused", wit, { {"step", step} }); }
    else if (k == "removeBase") { if (!s->schema.Erase(bases.back())) r.Drift("C19", "removeBase refused", wit, { {"step", step} }); }
    else if (k == "text") (void)s->schema.SetTermFor(bases.front(), "t" + std::to_string(step) + s->schema.GetText(bases.front()).term.Text().Raw());
    else if (k == "userTerm") s->schema.Emplace(CstType::term, UserTermFor(p));
    else if (k == "userPair") {   // the first addition (in list order) mentions the second
      const auto u1 = s->schema.Emplace(CstType::term, "ℬ(Z)"); const auto u2 = s->schema.Emplace(CstType::term, UserTermFor(p));
      (void)s->schema.SetExpressionFor(u1, s->schema.GetRS(u2).alias);
    }
  }
  else if (o == "Reload") {
    // save the document, destroy the schema object (which closes its sources), load the document with the items rotated,
    // re-open every source through the new object
    nlohmann::ordered_json doc = ossRef;
    auto& items = doc["items"]; const size_t n = items.size(); const size_t rot = n == 0 ? 0 : (c["n"].get<size_t>() % 3) % n;
    nlohmann::ordered_json rotated = nlohmann::ordered_json::array(); for (size_t i = 0; i < n; ++i) rotated.push_back(items[(i + rot) % n]);
    doc["items"] = rotated;
    // n >= 3: the connections are interleaved as well (all first parents, then all second parents): every child's own parent
    // order is kept, only the order in which pictograms are first mentioned changes
    if (c["n"].get<size_t>() >= 3) {
      auto& con = doc["connections"]; nlohmann::ordered_json first = nlohmann::ordered_json::array(), second = nlohmann::ordered_json::array(); std::set<nlohmann::ordered_json> seen;
      for (const auto& e : con) { if (seen.insert(e[0]).second) first.push_back(e); else second.push_back(e); }
      for (const auto& e : second) first.push_back(e);
      doc["connections"] = first;
    }
    std::map<PictID, bool> locked; for (const auto& pict : ossRef) if (auto* s = w.Src(pict.uid); s != nullptr) locked[pict.uid] = s->unwritable;
    w.oss.reset();
    w.oss = std::make_unique<OSSchema>();
    try { doc.get_to(*w.oss); } catch (const std::exception& ex) { r.Violation("C19", "saved document does not load", wit, { {"step", step}, {"what", ex.what()} }); return; }
    std::set<PictID> all; for (const auto& pict : *w.oss) all.insert(pict.uid);
    for (const auto p2 : all) (void)w.oss->Src().OpenSrc(p2);
    (void)locked;
  }
  else if (o == "ShiftPict") (void)ossRef.Grid().ShiftPict(p, c["n"].get<int32_t>());
  else if (o == "LoadPosition") { if (ossRef.Contains(p)) ossRef.Grid().LoadPosition(p, oss::GridPosition{ c["a"].get<int32_t>(), c["b"].get<int32_t>() }); }
  else if (o == "Lock") { if (auto* s = w.Data(p); s != nullptr) s->unwritable = true; }
  // (a source manager announces changes of open documents only: for a closed source nothing is sent - the schema would look it up
  // among the open sources, and the model just notes the change as saved)
  else if (o == "Save") { if (auto* s = w.Src(p); s != nullptr) s->TriggerSave(); }
  else if (o == "Close") { if (auto* s = w.Src(p); s != nullptr) w.Mgr().Close(*s); }
  else if (o == "Drop") { if (auto* s = w.Src(p); s != nullptr) s->TriggerClose(); }      // closed without announcing the pending change
  else if (o == "Open") { if (w.Src(p) == nullptr) if (auto* s = w.Data(p); s != nullptr) s->TriggerOpen(); }
  else if (o == "InitFor") {
    if (!ossRef.Contains(p) || ossRef.Ops()(p) == nullptr) return;
    const std::string t = c["type"]; const int table = c["table"].get<int>();
    std::unique_ptr<ops::EquationOptions> opts;
    if (table >= 0) { opts = std::make_unique<ops::EquationOptions>();
      if (table >= 1) { const auto parents = ossRef.Graph().ParentsOf(p); auto* s1 = w.Data(parents[0]); auto* s2 = w.Data(parents[1]);
        if (s1 != nullptr && s2 != nullptr && !BasesOf(s1->schema).empty() && !BasesOf(s2->schema).empty())
          opts->Insert(table == 2 ? BasesOf(s1->schema).back() : BasesOf(s1->schema).front(), BasesOf(s2->schema).front());
        else opts->Insert(424242, 434343); } }
    (void)ossRef.Ops().InitFor(p, t == "merge" ? ops::Type::rsMerge : ops::Type::rsSynt, std::move(opts));
  }
  else if (o == "Execute") ExecuteChecked(w, p, false, wit, step, r);
  else if (o == "ExecuteAll") ExecuteChecked(w, 0, true, wit, step, r);
  g_uids.clear();
  w.Refresh();
}
static std::string CompareView(const json& got, const json& exp, bool& freshness) {
  freshness = false;
  if (got.size() != exp.size()) return "number of pictograms";
  for (size_t i = 0; i < got.size(); ++i) {
    const auto& g = got[i]; const auto& e = exp[i];
    for (const char* k : { "pid", "parents", "isOp", "hasData", "type", "n", "terms", "broken", "outdated", "status", "row", "col", "labels", "key", "linked" }) if (g[k] != e[k]) {
      if (std::string(k) == "status" || std::string(k) == "outdated") freshness = g["status"] == "done" && e["status"] != "done";
      return std::string(k) + " of pictogram " + std::to_string(g["pid"].get<int>()) + ": " + g[k].dump() + " instead of " + e[k].dump();
    }
  }
  return "";
}

static void Handle(const json& c, vh::Report& r) {
  g_counter = 1000;
  World w; w.labelled = c.value("labelled", false);
  const json wit = { {"labelled", w.labelled}, {"prefix", c["prefix"]}, {"hist", c["hist"]} };
  size_t step = 0;
  for (const auto& op : c["prefix"]) Apply(w, op, wit, step, r, false);
  for (const auto& op : c["hist"]) {
    ++step; Apply(w, op, wit, step, r, true); r.Count("call." + op["op"].get<std::string>());
    ++r.checks;
    if (const auto inv = Structure(*w.oss); !inv.empty()) { r.Violation("C19", "structure: " + inv, wit, { {"step", step} }); return; }
    if (const auto inv = ParentsKept(w); !inv.empty()) { r.Violation("C19", "structure: " + inv, wit, { {"step", step} }); return; }
  }
  // ---- the state the model predicts (conformance), then freshness once every pending change has been announced
  bool fresh = false;
  ++r.checks;
  if (const auto d = CompareView(ViewOf(w), c["now"], fresh); !d.empty()) {
    if (fresh) r.Violation("C19", "operation reports done although the model says its parent's content changed", wit, { {"diff", d} });
    else r.Drift("C19", "state differs from the model: " + d.substr(0, d.find(':')), wit, { {"diff", d}, {"got", ViewOf(w)} });
  }
  std::set<PictID> all; for (const auto& pict : *w.oss) all.insert(pict.uid);
  for (const auto p : all) { if (w.Src(p) == nullptr) if (auto* s = w.Data(p); s != nullptr) s->TriggerOpen(); if (auto* s = w.Data(p); s != nullptr) s->TriggerSave(); w.Refresh(); }
  ++r.checks;
  // freshness on the implementation alone: an operation that reports done holds the synthesis of its parents' current schemas
  // (with labelled base sets the texts decide which copies DeleteDuplicates merges, so the synthesis can change without any change
  // of a parent's formal content - what the statement's freshness clause is about; there only the model's statuses are compared)
  for (const auto p : all) {
    if (w.labelled) break;
    if (w.oss->Ops()(p) == nullptr || w.oss->Ops().StatusOf(p) != ops::Status::done) continue;
    json info = { {"pid", p} };
    const auto v = ResultVsParents(w, p, info);
    if (v == "differs") { info["view"] = ViewOf(w);
      r.Violation("C19", "operation reports done over a parent whose announced formal content changed since it was executed", wit, info); }
    // a parent re-connected to another source with the same formal content: the statement does not ask for a re-check
    else if (v != "" && v != "skip") r.Count("done.same-content-reconnect");
  }
  if (const auto d = CompareView(ViewOf(w), c["saved"], fresh); !d.empty()) {
    if (fresh) r.Violation("C19", "operation reports done although the model says its parent's content changed", wit, { {"diff", d}, {"after", "all pending changes announced"} });
    else r.Drift("C19", "state after announcing everything differs from the model: " + d.substr(0, d.find(':')), wit, { {"diff", d}, {"got", ViewOf(w)} });
  }
  if (c["hist"].size() >= 2) r.NonTrivial(c["hist"].dump());
  if ((r.cases % 4973) == 3) r.Sample(c);
}

// ------------------------------------------------------------------ recording (direction B): long random histories
#include <random>
static int Record(const vh::Args& args) {
  const long traces = args.num("record", 5), steps = args.num("steps", 40);
  std::mt19937 g(static_cast<unsigned>(args.num("seed", 1)));
  std::ofstream out(args.get("trace")); vh::Report rep; long events = 0;
  for (long t = 0; t < traces; ++t) {
    const bool labelled = g() % 2 == 0;
    out << json{ {"op", "Reset"}, {"labelled", labelled} }.dump() << std::endl; ++events;
    g_counter = 1000;
    World w; w.labelled = labelled; int nextPict = 1, nextSrc = 101;
    auto ev0 = [](const char* op) { return json{ {"op", op}, {"p", 0}, {"a", 0}, {"b", 0}, {"new", 0}, {"s", 0}, {"n", 0}, {"kind", ""}, {"type", ""}, {"table", 0} }; };
    for (long st = 0; st < steps; ++st) {
      std::vector<PictID> all, opsL, bases; for (const auto& pict : *w.oss) all.push_back(pict.uid); std::sort(all.begin(), all.end());
      for (const auto p : all) (w.oss->Ops()(p) != nullptr ? opsL : bases).push_back(p);
      auto pick = [&](const std::vector<PictID>& v) { return v[g() % v.size()]; };
      json ev; const int wgt = static_cast<int>(g() % 100);
      if (all.size() < 3 || (wgt < 8 && all.size() < 7)) {
        if (bases.size() < 2 || g() % 2) { ev = ev0("InsertBase"); ev["new"] = nextPict++; }
        else { ev = ev0("InsertOperation"); ev["new"] = nextPict++; ev["a"] = pick(all); ev["b"] = pick(all); }
      }
      else if (wgt < 14 && all.size() < 7) { ev = ev0("InsertOperation"); ev["new"] = nextPict++; ev["a"] = pick(all); ev["b"] = pick(all); }
      else if (wgt < 17) { ev = ev0("Erase"); ev["p"] = pick(all); }
      else if (wgt < 18) { ev = ev0("ShiftPict"); ev["p"] = pick(all); ev["n"] = static_cast<int>(g() % 4) - 1; }
      else if (wgt < 34) {   // connect a base pictogram that has no source yet (a re-connection replaces every constituent: outside the model's content abstraction)
        std::vector<PictID> fresh; for (const auto p : bases) if (w.oss->Src()(p)->empty()) fresh.push_back(p);
        if (fresh.empty()) { --st; continue; }
        ev = ev0("ConnectNew"); ev["p"] = pick(fresh); ev["s"] = nextSrc++; ev["n"] = 1 + static_cast<int>(g() % 2);
      }
      else if (wgt < 52) {   // edit
        std::vector<std::pair<PictID, std::string>> can;
        for (const auto p : all) if (auto* s = w.Data(p); s != nullptr) {
          const auto nb = BasesOf(s->schema).size(); const bool isOp = w.oss->Ops()(p) != nullptr;
          if (!isOp && nb < 3) can.push_back({ p, "addBase" });
          if (!isOp && nb >= 2) can.push_back({ p, "removeBase" });
          if (!isOp && nb >= 2 && labelled) can.push_back({ p, "removeFirst" });
          bool hasOwn = false; for (const auto u : s->schema.List()) if (!s->schema.Mods().IsTracking(u) && isOp) hasOwn = true;
          if (isOp && nb >= 1 && !hasOwn) can.push_back({ p, (g() % 2) ? "userTerm" : "userPair" });
        }
        if (can.empty()) { --st; continue; }
        const auto c = can[g() % can.size()]; ev = ev0("Edit"); ev["p"] = c.first; ev["kind"] = c.second;
      }
      else if (wgt < 61) { std::vector<PictID> linked; for (const auto p : all) if (w.Data(p) != nullptr) linked.push_back(p); if (linked.empty()) { --st; continue; } ev = ev0("Save"); ev["p"] = pick(linked); }
      else if (wgt < 63) { std::vector<PictID> linked; for (const auto p : all) if (w.Src(p) != nullptr) linked.push_back(p); if (linked.empty()) { --st; continue; } ev = ev0(g() % 2 ? "Close" : "Drop"); ev["p"] = pick(linked); }
      else if (wgt < 64) { std::vector<PictID> closed; for (const auto p : all) if (w.Src(p) == nullptr && w.Data(p) != nullptr) closed.push_back(p); if (closed.empty()) { --st; continue; } ev = ev0("Open"); ev["p"] = pick(closed); }
      else if (wgt < 76) {
        if (opsL.empty()) { --st; continue; }
        const auto p = pick(opsL); const auto parents = w.oss->Graph().ParentsOf(p);
        // not taken: re-defining an operation that has a result while a child's equation table names one of its base sets
        bool named = false; for (const auto ch : w.oss->Graph().ChildrenOf(p)) if (const auto* eq = dynamic_cast<const ops::EquationOptions*>(w.oss->Ops()(ch)->options.get()); eq != nullptr && !eq->empty()) named = true;
        if (named && w.Data(p) != nullptr) { --st; continue; }
        const bool bothBases = w.oss->Ops()(parents[0]) == nullptr && w.oss->Ops()(parents[1]) == nullptr;
        const int k = static_cast<int>(g() % (labelled ? 4 : bothBases ? 3 : 2));
        ev = ev0("InitFor"); ev["p"] = p; ev["type"] = k == 0 ? "merge" : "synt"; ev["table"] = k == 0 ? -1 : k - 1;
      }
      else if (wgt < 90) { if (opsL.empty()) { --st; continue; } ev = ev0("Execute"); ev["p"] = pick(opsL); }
      else if (wgt < 94) { if (opsL.empty()) { --st; continue; } ev = ev0("ExecuteAll"); }
      else if (wgt < 96) { std::vector<PictID> res; for (const auto p : opsL) if (auto* s = w.Data(p); s != nullptr && !s->unwritable) res.push_back(p); if (res.empty()) { --st; continue; } ev = ev0("Lock"); ev["p"] = pick(res); }
      else {   // reload only when nothing is pending: announce everything first (as separate events)
        bool pending = false;
        for (const auto p : all) if (w.Src(p) == nullptr && w.Data(p) != nullptr) { json op = ev0("Open"); op["p"] = p; Apply(w, op, json(), 0, rep, false); op["view"] = ViewOf(w); out << op.dump() << std::endl; ++events; }
        for (const auto p : all) if (auto* s = w.Src(p); s != nullptr) { json sv = ev0("Save"); sv["p"] = p; Apply(w, sv, json(), 0, rep, false); sv["view"] = ViewOf(w); out << sv.dump() << std::endl; ++events; (void)pending; }
        ev = ev0("Reload"); ev["n"] = static_cast<int>(g() % 6);
      }
      Apply(w, ev, json(), static_cast<size_t>(st), rep, false);
      ev["view"] = ViewOf(w);
      out << ev.dump() << std::endl; ++events;
    }
    ++rep.cases;
  }
  rep.counters["events"] = events; rep.counters["traces"] = traces;
  rep.Write(args.get("out"));
  return 0;
}

int main(int argc, char** argv) {
  InstallHook();
  { vh::Args args(argc, argv); if (args.has("record")) return vh::RunRecorder(args.get("trace"), args.get("out"), [&]() { return Record(args); }, 1800); }
  vh::IsoOptions iso; iso.faultProperty = "C19"; iso.batch = 300; iso.watchdogSeconds = 90;
  return vh::Main(argc, argv, Handle, true, iso);
}
